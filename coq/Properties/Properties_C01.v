(* C01 - every request completes exactly once, whatever happens in between.
   Statements only; proofs are in Core/Lifecycle*_proofs.v.

   The model (Core/Lifecycle.v) is the code as fixed by the commits ce0c9d5, e732c3e, 3a27dcb,
   eb0f53d, 8caadf2 ([cf_fix cf = all_fixed]); the behaviour of
   the pinned tree is refuted by the witnesses of Core/Lifecycle_refuted.v (last section).

   Scope of the general theorems (suffix _partial): histories whose requests are send / query /
   search / gethostbyaddr / getnameinfo and their legacy variants, ares_cancel from the
   application and from callbacks, ares_destroy; all scripts, all tapes (server behaviour,
   timeouts, socket results, server choice), all fuel.  MISSING: ares_getaddrinfo /
   ares_gethostbyname (struct host_query shared by the A and AAAA queries) -- modelled and tied
   by the correspondence run, not covered by the proofs; completeness when ares_cancel returns
   (complete_at_cancel) is checked by the monitor only; sufficiency of the fuel is not proved
   (the theorems speak about every fuel; the correspondence run reports fuel exhaustion as a
   difference). *)
From Coq Require Import List ZArith.
Import ListNotations.
From CAres.Base Require Import Outcome.
From CAres.Core Require Import LifecycleMonitor LifecycleMonitor_proofs Lifecycle Lifecycle_inv Lifecycle_proofs
  Lifecycle_tokens Lifecycle_tokens_proofs Lifecycle_refuted.

(* The executable oracle run on the implementation's trace decides exactly the declarative
   property (at most once, none after destroy, complete at destroy/end, complete at cancel). *)
Theorem C01_monitor_decides_trace_ok : forall tr, callback_monitor tr = VOk <-> trace_ok tr.
Proof. exact monitor_ok_iff. Qed.
Print Assumptions C01_monitor_decides_trace_ok.

(* FULL STATEMENT: forall cf fuel h final, cf_fix cf = all_fixed -> forall k, run cf fuel h final <> UB k *)
Theorem C01_no_ub_partial :
  forall cf fuel h final, cf_fix cf = all_fixed -> Forall (fun it => nohost_input (fst it)) h ->
  forall k, run cf fuel h final <> UB k.
Proof. exact run_no_ub. Qed.
Print Assumptions C01_no_ub_partial.

(* FULL STATEMENT: the same without the nohost hypothesis.  Tokens are chosen by the application:
   [NoDup (hist_toks h)] says that it uses a fresh token for every request (also in scripts). *)
Theorem C01_at_most_once_partial :
  forall cf fuel h final tr, cf_fix cf = all_fixed -> Forall (fun it => nohost_input (fst it)) h ->
  NoDup (hist_toks h) -> run cf fuel h final = Ok tr -> at_most_once tr.
Proof. intros cf fuel h final tr H1 H2 H3 H4. exact (proj1 (run_trace_ok cf fuel h final tr H1 H2 H3 H4)). Qed.
Print Assumptions C01_at_most_once_partial.

Theorem C01_none_after_destroy_partial :
  forall cf fuel h final tr, cf_fix cf = all_fixed -> Forall (fun it => nohost_input (fst it)) h ->
  NoDup (hist_toks h) -> run cf fuel h final = Ok tr -> none_after_destroy tr.
Proof. intros cf fuel h final tr H1 H2 H3 H4. exact (proj1 (proj2 (run_trace_ok cf fuel h final tr H1 H2 H3 H4))). Qed.
Print Assumptions C01_none_after_destroy_partial.

(* when ares_destroy has returned every request has had exactly one callback ... *)
Theorem C01_exactly_once_on_destroy_partial :
  forall cf fuel h final tr, cf_fix cf = all_fixed -> Forall (fun it => nohost_input (fst it)) h ->
  NoDup (hist_toks h) -> run cf fuel h final = Ok tr -> complete_at_destroy tr.
Proof. intros cf fuel h final tr H1 H2 H3 H4. exact (proj2 (proj2 (run_trace_ok cf fuel h final tr H1 H2 H3 H4))). Qed.
Print Assumptions C01_exactly_once_on_destroy_partial.

(* ... and so it is at every point of a history at which no query is outstanding *)
Theorem C01_exactly_once_on_quiescence_partial :
  forall cf fuel h s, cf_fix cf = all_fixed -> Forall (fun it => nohost_input (fst it)) h -> NoDup (hist_toks h) ->
  run_from cf fuel h init_state = Ok (false, s) -> linked s = [] ->
  (forall t, count_cb (st_trace s) t = count_req (st_trace s) t) /\ at_most_once (rev (st_trace s)).
Proof. exact run_from_quiescent. Qed.
Print Assumptions C01_exactly_once_on_quiescence_partial.

(* the hypotheses are inhabited by non-trivial histories (reentrant cancel, failing follow-up
   send on the connection under read), on which the model runs to completion *)
Example C01_hypotheses_inhabited :
  Forall (fun it => nohost_input (fst it)) h_sibling_cancels /\ NoDup (hist_toks h_sibling_cancels)
  /\ run (mkcfg all_fixed 1) 60 h_sibling_cancels []
     = Ok [EvReq 1; EvReq 2; EvCb 1 11%Z; EvCb 2 24%Z; EvDestroyBegin; EvDestroyEnd; EvEnd].
Proof. split; [repeat constructor|]. split; [vm_compute; repeat constructor; simpl; intuition discriminate|]. vm_compute. reflexivity. Qed.

(* ---- the pinned tree does not satisfy the property: one witness per defect ---- *)
Theorem C01_pinned_cancel_in_callback_refuted :
  exists h final k, run (mkcfg without_unlink 3) 60 h final = UB k /\ accepted (run (mkcfg all_fixed 3) 60 h final) = true.
Proof. exists h_cancel_in_cb, [], UseAfterFree. vm_compute. split; reflexivity. Qed.
Print Assumptions C01_pinned_cancel_in_callback_refuted.

Theorem C01_pinned_search_eformerr_refuted :
  exists h final k, run (mkcfg without_search 3) 60 h final = UB k /\ accepted (run (mkcfg all_fixed 3) 60 h final) = true.
Proof. exists h_search_eformerr, [], UseAfterFree. vm_compute. split; reflexivity. Qed.
Print Assumptions C01_pinned_search_eformerr_refuted.

Theorem C01_pinned_sibling_cancels_refuted :
  exists h final k, run (mkcfg without_revalidate 1) 60 h final = UB k /\ accepted (run (mkcfg all_fixed 1) 60 h final) = true.
Proof. exists h_sibling_cancels, [], UseAfterFree. vm_compute. split; reflexivity. Qed.
Print Assumptions C01_pinned_sibling_cancels_refuted.

Theorem C01_pinned_conn_under_read_refuted :
  exists h final k, run (mkcfg without_connread 3) 60 h final = UB k /\ accepted (run (mkcfg all_fixed 3) 60 h final) = true.
Proof. exists h_followup_fails, f_followup_fails, UseAfterFree. vm_compute. split; reflexivity. Qed.
Print Assumptions C01_pinned_conn_under_read_refuted.

(* found with this model in the tree that already had the four fixes: ares_send_nolock stores the
   query id into a host_query that a callback released while ares_send_query was running *)
Theorem C01_pinned_qid_after_free_refuted :
  exists h final k, run (mkcfg without_qidearly 4) 60 h final = UB k /\ accepted (run (mkcfg all_fixed 4) 60 h final) = true.
Proof. exists h_qid_after_free, [], UseAfterFree. vm_compute. split; reflexivity. Qed.
Print Assumptions C01_pinned_qid_after_free_refuted.
