(* C01 - every request completes exactly once, whatever happens in between.
   Statements only; proofs are in Core/Lifecycle*_proofs.v.

   The model (Core/Lifecycle.v) is the code as fixed by the commits ce0c9d5, e732c3e, 3a27dcb,
   eb0f53d, 8caadf2 ([cf_fix cf = all_fixed]); the behaviour of
   the pinned tree is refuted by the witnesses of Core/Lifecycle_refuted.v (last section).

   Scope of the general theorems: histories built from all seven entry points (send / query /
   search / getaddrinfo / gethostbyname / gethostbyaddr / getnameinfo and the legacy variants of
   the first three), ares_cancel and ares_set_servers*/ares_reinit from the application and from
   callbacks, ares_process_fds, ares_destroy; all scripts (calls made from inside callbacks, nested), all tapes (server
   behaviour, cache results, timeouts, socket results, server choice), all fuel.
   For getaddrinfo / gethostbyname the proofs cover struct host_query shared by the A and AAAA
   queries: the "remaining" counter against the queries that point at it, a query completing
   inside the call that submits it (cache hit, send failure) while the second one is still to be
   submitted, next_lookup / end_hquery, "*qid = id" through &hquery->qid_a.
   Completeness when ares_cancel returns is proved for the code with fixes/C01-cancel-complete.patch
   (C01_complete_at_cancel) and refuted for the code before it (C01_pinned_cancel_incomplete_refuted).
   The theorems speak about every fuel; C01_fuel_sufficient gives the fuel (a linear function of
   the size of the history, the one the correspondence driver supplies) that is never exhausted. *)
From Coq Require Import List ZArith.
Import ListNotations.
From CAres.Base Require Import Outcome.
From CAres.Core Require Import LifecycleMonitor LifecycleMonitor_proofs Lifecycle Lifecycle_inv Lifecycle_proofs
  Lifecycle_tokens Lifecycle_tokens_proofs Lifecycle_status Lifecycle_cancel_top Lifecycle_fuel_proofs Lifecycle_fuel_top Lifecycle_refuted.

(* The executable oracle run on the implementation's trace decides exactly the declarative
   property (at most once, none after destroy, complete at destroy/end, complete at cancel). *)
Theorem C01_monitor_decides_trace_ok : forall tr, callback_monitor tr = VOk <-> trace_ok tr.
Proof. exact monitor_ok_iff. Qed.
Print Assumptions C01_monitor_decides_trace_ok.

(* ... and a second oracle for the status with which a request ends when the application cancels or
   destroys: a request pending at a top-level ares_cancel() that completes inside it carries
   ARES_ECANCELLED; a request pending at ares_destroy() that completes inside it carries
   ARES_EDESTRUCTION (or ARES_ECANCELLED, ares_cancel() from a callback), as long as no callback has
   made a request or changed the servers inside that ares_destroy() *)
Theorem C01_status_monitor_decides_status_ok : forall tr, status_monitor tr = VOk <-> status_ok tr.
Proof. exact status_monitor_ok_iff. Qed.
Print Assumptions C01_status_monitor_decides_status_ok.

(* no use after release, no double release, for every history, tape and fuel *)
Theorem C01_no_ub :
  forall cf fuel h final, cf_fix cf = all_fixed ->
  forall k, run cf fuel h final <> UB k.
Proof. exact run_no_ub. Qed.
Print Assumptions C01_no_ub.

(* Tokens are chosen by the application: [NoDup (hist_toks h)] says that it uses a fresh token
   for every request (also in scripts). *)
Theorem C01_at_most_once :
  forall cf fuel h final tr, cf_fix cf = all_fixed ->
  NoDup (hist_toks h) -> run cf fuel h final = Ok tr -> at_most_once tr.
Proof. exact run_at_most_once. Qed.
Print Assumptions C01_at_most_once.

Theorem C01_none_after_destroy :
  forall cf fuel h final tr, cf_fix cf = all_fixed ->
  NoDup (hist_toks h) -> run cf fuel h final = Ok tr -> none_after_destroy tr.
Proof. exact run_none_after_destroy. Qed.
Print Assumptions C01_none_after_destroy.

(* when ares_destroy has returned every request has had exactly one callback ... *)
Theorem C01_exactly_once_on_destroy :
  forall cf fuel h final tr, cf_fix cf = all_fixed ->
  NoDup (hist_toks h) -> run cf fuel h final = Ok tr -> complete_at_destroy tr.
Proof. exact run_complete_at_destroy. Qed.
Print Assumptions C01_exactly_once_on_destroy.

(* ... and so it is at every point of a history at which no query is outstanding *)
Theorem C01_exactly_once_on_quiescence :
  forall cf fuel h s, cf_fix cf = all_fixed -> NoDup (hist_toks h) ->
  run_from cf fuel h (init_state cf) = Ok (false, s) -> linked s = [] ->
  (forall t, count_cb (st_trace s) t = count_req (st_trace s) t) /\ at_most_once (rev (st_trace s)).
Proof. exact run_from_quiescent. Qed.
Print Assumptions C01_exactly_once_on_quiescence.

(* when a top-level ares_cancel has returned, every request made before it was called has had its
   callback (exactly one, by C01_at_most_once), whatever the callbacks did in between: new
   requests, nested ares_cancel, ares_set_servers*, connections closing under the queries that
   ares_cancel still holds *)
Theorem C01_complete_at_cancel :
  forall cf fuel h final tr, cf_fix cf = all_fixed ->
  NoDup (hist_toks h) -> run cf fuel h final = Ok tr -> complete_at_cancel tr.
Proof. exact run_complete_at_cancel. Qed.
Print Assumptions C01_complete_at_cancel.

(* the status: a request that was pending when the application called ares_cancel and completes
   inside the call carries ARES_ECANCELLED; one that completes inside ares_destroy carries
   ARES_EDESTRUCTION or ARES_ECANCELLED as long as no callback has made a request or changed the
   servers inside that ares_destroy - whatever the kind of request and the wrappers in between *)
Theorem C01_status_at_cancel_and_destroy :
  forall cf fuel h final tr, cf_fix cf = all_fixed ->
  NoDup (hist_toks h) -> run cf fuel h final = Ok tr -> status_ok tr.
Proof. exact run_status_ok. Qed.
Print Assumptions C01_status_at_cancel_and_destroy.

(* the reason: every wrapper (getnameinfo's, with or without ARES_NI_NAMEREQD, included) hands
   ARES_ECANCELLED / ARES_EDESTRUCTION to the closure inside unchanged *)
Theorem C01_wrappers_pass_cancel_status :
  forall cf f w o k r, goodr r ->
  invoke cf (S f) (KWrap w o k) r = (let! _ := touch o in invoke cf f k r ;; free_obj o).
Proof. exact invoke_wrap_good. Qed.
Print Assumptions C01_wrappers_pass_cancel_status.

(* so every trace of the model is accepted by both oracles that judge the implementation's traces *)
Theorem C01_model_traces_pass_the_monitor :
  forall cf fuel h final tr, cf_fix cf = all_fixed ->
  NoDup (hist_toks h) -> run cf fuel h final = Ok tr -> trace_ok tr /\ status_ok tr.
Proof. exact run_trace_ok_full. Qed.
Print Assumptions C01_model_traces_pass_the_monitor.

(* the fuel is the depth of nested calls plus the iteration bound of the loops; with
   fuel_bound h final = 20 * (sum over the inputs of 4 * tape events + size of the call) + 10
   (size of a call: 20 + 8 per search candidate / lookup, 64 per getaddrinfo lookup or name) the
   model never stops for lack of fuel: every outcome is a trace, a desynchronised tape, or - for
   the pinned variants only - undefined behaviour *)
Theorem C01_fuel_sufficient :
  forall cf fuel h final, cf_fix cf = all_fixed ->
  fuel_bound h final <= fuel -> run cf fuel h final <> Err OutOfFuel.
Proof. exact run_fuel_sufficient. Qed.
Print Assumptions C01_fuel_sufficient.

(* the driver computes the bound with tail-recursive arithmetic (the extracted numbers are unary) *)
Theorem C01_fuel_bound_as_computed : forall h final, fuel_bound_tr h final = fuel_bound h final.
Proof. exact fuel_bound_tr_eq. Qed.
Print Assumptions C01_fuel_bound_as_computed.

(* the hypotheses are inhabited by non-trivial histories (reentrant cancel with a failing
   follow-up send on the connection under read; a getaddrinfo whose first query is released by a
   callback while it is being sent; a top-level cancel during which a callback's request closes
   the connection under a query that is still waiting to be cancelled), on which the model runs
   to completion *)
Example C01_hypotheses_inhabited :
  NoDup (hist_toks h_sibling_cancels)
  /\ run (mkcfg all_fixed 1) 60 h_sibling_cancels []
     = Ok [EvReq 1; EvReq 2; EvCb 1 11%Z; EvCb 2 24%Z; EvDestroyBegin; EvDestroyEnd; EvEnd]
  /\ NoDup (hist_toks h_qid_after_free)
  /\ run (mkcfg all_fixed 4) 60 h_qid_after_free []
     = Ok [EvReq 9; EvReq 1; EvReq 5; EvCb 1 0%Z; EvCb 9 24%Z; EvCb 5 24%Z; EvDestroyBegin; EvDestroyEnd; EvEnd]
  /\ NoDup (hist_toks h_cancel_complete)
  /\ run (mkcfg all_fixed 1) 60 h_cancel_complete []
     = Ok [EvReq 2; EvReq 1; EvCancelBegin; EvCb 2 24%Z; EvReq 3; EvCb 1 24%Z; EvCb 3 11%Z; EvCancelEnd;
           EvDestroyBegin; EvDestroyEnd; EvEnd]
  /\ run (mkcfg all_fixed 1) (fuel_bound h_cancel_complete []) h_cancel_complete []
     = run (mkcfg all_fixed 1) 60 h_cancel_complete [].
Proof.
  split; [vm_compute; repeat constructor; simpl; intuition discriminate|]. split; [vm_compute; reflexivity|].
  split; [vm_compute; repeat constructor; simpl; intuition discriminate|]. split; [vm_compute; reflexivity|].
  split; [vm_compute; repeat constructor; simpl; intuition discriminate|]. split; vm_compute; reflexivity.
Qed.

(* before fixes/C01-cancel-complete.patch "when ares_cancel() returns every request made before it
   has completed" did not hold: a query waiting in ares_cancel's private list could be completed
   with a connection error by a callback of an earlier cancelled request, and a gethostbyaddr /
   getnameinfo configured with two DNS lookups then went on with a new query that survived the
   cancellation.  The witness is the LC trace of the real library without that fix. *)
Theorem C01_pinned_cancel_incomplete_refuted :
  exists cf fuel h final tr, cf_fix cf = without_cancelmark /\ run cf fuel h final = Ok tr /\ ~ complete_at_cancel tr.
Proof. exact cancel_incomplete. Qed.
Print Assumptions C01_pinned_cancel_incomplete_refuted.

(* ---- the pinned tree does not satisfy the property: one witness per defect ---- *)
Theorem C01_pinned_cancel_in_callback_refuted :
  exists h final k, run (mkcfg without_unlink 3) 60 h final = UB k /\ accepted (run (mkcfg all_fixed 3) 60 h final) = true.
Proof. exists h_cancel_in_cb, [], UseAfterFree. vm_compute. split; reflexivity. Qed.
Print Assumptions C01_pinned_cancel_in_callback_refuted.

Theorem C01_pinned_search_eformerr_refuted :
  exists h final k, run (mkcfg without_search 3) 60 h final = UB k /\ accepted (run (mkcfg all_fixed 3) 60 h final) = true.
Proof. exists h_search_eformerr, [], UseAfterFree. vm_compute. split; reflexivity. Qed.
Print Assumptions C01_pinned_search_eformerr_refuted.

Theorem C01_pinned_sibling_cancels_refuted :
  exists h final k, run (mkcfg without_revalidate 1) 60 h final = UB k /\ accepted (run (mkcfg all_fixed 1) 60 h final) = true.
Proof. exists h_sibling_cancels, [], UseAfterFree. vm_compute. split; reflexivity. Qed.
Print Assumptions C01_pinned_sibling_cancels_refuted.

Theorem C01_pinned_conn_under_read_refuted :
  exists h final k, run (mkcfg without_connread 3) 60 h final = UB k /\ accepted (run (mkcfg all_fixed 3) 60 h final) = true.
Proof. exists h_followup_fails, f_followup_fails, UseAfterFree. vm_compute. split; reflexivity. Qed.
Print Assumptions C01_pinned_conn_under_read_refuted.

(* found with this model in the tree that already had the four fixes: ares_send_nolock stores the
   query id into a host_query that a callback released while ares_send_query was running *)
Theorem C01_pinned_qid_after_free_refuted :
  exists h final k, run (mkcfg without_qidearly 4) 60 h final = UB k /\ accepted (run (mkcfg all_fixed 4) 60 h final) = true.
Proof. exists h_qid_after_free, [], UseAfterFree. vm_compute. split; reflexivity. Qed.
Print Assumptions C01_pinned_qid_after_free_refuted.
