(* C01 - every request completes exactly once, whatever happens in between.
   Statements only; proofs are in Core/Lifecycle*_proofs.v *)
From Coq Require Import List ZArith.
From CAres.Core Require Import LifecycleMonitor LifecycleMonitor_proofs.

(* The executable oracle run on the implementation's trace decides exactly the declarative
   property (at most once, none after destroy, complete at destroy/end, complete at cancel). *)
Theorem C01_monitor_decides_trace_ok : forall tr, callback_monitor tr = VOk <-> trace_ok tr.
Proof. exact monitor_ok_iff. Qed.
Print Assumptions C01_monitor_decides_trace_ok.
