(* C01 - every request completes exactly once, whatever happens in between.
   Statements only; proofs are in Core/Lifecycle*_proofs.v.

   The model (Core/Lifecycle.v) is the code as fixed by the commits ce0c9d5, e732c3e, 3a27dcb,
   eb0f53d ([cf_fix cf = all_fixed]); the behaviour of the pinned tree is refuted by the
   witnesses of Core/Lifecycle_refuted.v (last section of this file). *)
From Coq Require Import List ZArith.
Import ListNotations.
From CAres.Base Require Import Outcome.
From CAres.Core Require Import LifecycleMonitor LifecycleMonitor_proofs Lifecycle Lifecycle_proofs Lifecycle_refuted.

(* The executable oracle run on the implementation's trace decides exactly the declarative
   property (at most once, none after destroy, complete at destroy/end, complete at cancel). *)
Theorem C01_monitor_decides_trace_ok : forall tr, callback_monitor tr = VOk <-> trace_ok tr.
Proof. exact monitor_ok_iff. Qed.
Print Assumptions C01_monitor_decides_trace_ok.

(* FULL STATEMENT: forall cf fuel h final, cf_fix cf = all_fixed -> forall k, run cf fuel h final <> UB k
   (no history of API calls -- including calls made from callbacks --, server behaviours, timeouts,
   socket failures and decisions of the library makes the lifecycle code touch or release a
   released query, connection, wrapper or search/addr state).
   PROVED for histories whose requests are send / query / search / gethostbyaddr / getnameinfo
   (+ legacy variants), cancel from anywhere, destroy.  MISSING: ares_getaddrinfo /
   ares_gethostbyname (struct host_query shared by the A and AAAA queries); they are covered by
   the correspondence run and the sanitizers only. *)
Theorem C01_no_ub_partial :
  forall cf fuel h final, cf_fix cf = all_fixed -> Forall (fun it => nohost_input (fst it)) h ->
  forall k, run cf fuel h final <> UB k.
Proof. exact run_no_ub. Qed.
Print Assumptions C01_no_ub_partial.

(* the hypotheses are inhabited by non-trivial histories: the witnesses below satisfy them *)
Example C01_no_ub_example :
  Forall (fun it => nohost_input (fst it)) h_followup_fails /\ Forall (fun it => nohost_input (fst it)) h_sibling_cancels.
Proof. split; repeat constructor. Qed.

(* ---- the pinned tree does not satisfy the property: one witness per defect ---- *)
Theorem C01_pinned_cancel_in_callback_refuted :
  exists h final k, run (mkcfg without_unlink 3) 60 h final = UB k /\ accepted (run (mkcfg all_fixed 3) 60 h final) = true.
Proof. exists h_cancel_in_cb, [], UseAfterFree. vm_compute. split; reflexivity. Qed.
Print Assumptions C01_pinned_cancel_in_callback_refuted.

Theorem C01_pinned_search_eformerr_refuted :
  exists h final k, run (mkcfg without_search 3) 60 h final = UB k /\ accepted (run (mkcfg all_fixed 3) 60 h final) = true.
Proof. exists h_search_eformerr, [], UseAfterFree. vm_compute. split; reflexivity. Qed.
Print Assumptions C01_pinned_search_eformerr_refuted.

Theorem C01_pinned_sibling_cancels_refuted :
  exists h final k, run (mkcfg without_revalidate 1) 60 h final = UB k /\ accepted (run (mkcfg all_fixed 1) 60 h final) = true.
Proof. exists h_sibling_cancels, [], UseAfterFree. vm_compute. split; reflexivity. Qed.
Print Assumptions C01_pinned_sibling_cancels_refuted.

Theorem C01_pinned_conn_under_read_refuted :
  exists h final k, run (mkcfg without_connread 3) 60 h final = UB k /\ accepted (run (mkcfg all_fixed 3) 60 h final) = true.
Proof. exists h_followup_fails, f_followup_fails, UseAfterFree. vm_compute. split; reflexivity. Qed.
Print Assumptions C01_pinned_conn_under_read_refuted.
