(* C01 - every request completes exactly once, whatever happens in between.
   Statements only; proofs are in Core/Lifecycle*_proofs.v.

   The model (Core/Lifecycle.v) is the code as fixed by the commits ce0c9d5, e732c3e, 3a27dcb,
   eb0f53d, 8caadf2 ([cf_fix cf = all_fixed]); the behaviour of
   the pinned tree is refuted by the witnesses of Core/Lifecycle_refuted.v (last section).

   Scope of the general theorems: histories built from all seven entry points (send / query /
   search / getaddrinfo / gethostbyname / gethostbyaddr / getnameinfo and the legacy variants of
   the first three), ares_cancel and ares_set_servers*/ares_reinit from the application and from
   callbacks, ares_process_fds, ares_destroy; all scripts (calls made from inside callbacks, nested), all tapes (server
   behaviour, cache results, timeouts, socket results, server choice), all fuel.
   For getaddrinfo / gethostbyname the proofs cover struct host_query shared by the A and AAAA
   queries: the "remaining" counter against the queries that point at it, a query completing
   inside the call that submits it (cache hit, send failure) while the second one is still to be
   submitted, next_lookup / end_hquery, "*qid = id" through &hquery->qid_a.
   Completeness when ares_cancel returns (complete_at_cancel) is refuted for the code as it is
   (C01_complete_at_cancel_refuted) and checked by the monitor on generated histories; sufficiency of the fuel is not proved (the theorems speak about every fuel; the
   correspondence run reports fuel exhaustion as a difference). *)
From Coq Require Import List ZArith.
Import ListNotations.
From CAres.Base Require Import Outcome.
From CAres.Core Require Import LifecycleMonitor LifecycleMonitor_proofs Lifecycle Lifecycle_inv Lifecycle_proofs
  Lifecycle_tokens Lifecycle_tokens_proofs Lifecycle_refuted.

(* The executable oracle run on the implementation's trace decides exactly the declarative
   property (at most once, none after destroy, complete at destroy/end, complete at cancel). *)
Theorem C01_monitor_decides_trace_ok : forall tr, callback_monitor tr = VOk <-> trace_ok tr.
Proof. exact monitor_ok_iff. Qed.
Print Assumptions C01_monitor_decides_trace_ok.

(* no use after release, no double release, for every history, tape and fuel *)
Theorem C01_no_ub :
  forall cf fuel h final, cf_fix cf = all_fixed ->
  forall k, run cf fuel h final <> UB k.
Proof. exact run_no_ub. Qed.
Print Assumptions C01_no_ub.

(* Tokens are chosen by the application: [NoDup (hist_toks h)] says that it uses a fresh token
   for every request (also in scripts). *)
Theorem C01_at_most_once :
  forall cf fuel h final tr, cf_fix cf = all_fixed ->
  NoDup (hist_toks h) -> run cf fuel h final = Ok tr -> at_most_once tr.
Proof. exact run_at_most_once. Qed.
Print Assumptions C01_at_most_once.

Theorem C01_none_after_destroy :
  forall cf fuel h final tr, cf_fix cf = all_fixed ->
  NoDup (hist_toks h) -> run cf fuel h final = Ok tr -> none_after_destroy tr.
Proof. exact run_none_after_destroy. Qed.
Print Assumptions C01_none_after_destroy.

(* when ares_destroy has returned every request has had exactly one callback ... *)
Theorem C01_exactly_once_on_destroy :
  forall cf fuel h final tr, cf_fix cf = all_fixed ->
  NoDup (hist_toks h) -> run cf fuel h final = Ok tr -> complete_at_destroy tr.
Proof. exact run_complete_at_destroy. Qed.
Print Assumptions C01_exactly_once_on_destroy.

(* ... and so it is at every point of a history at which no query is outstanding *)
Theorem C01_exactly_once_on_quiescence :
  forall cf fuel h s, cf_fix cf = all_fixed -> NoDup (hist_toks h) ->
  run_from cf fuel h (init_state cf) = Ok (false, s) -> linked s = [] ->
  (forall t, count_cb (st_trace s) t = count_req (st_trace s) t) /\ at_most_once (rev (st_trace s)).
Proof. exact run_from_quiescent. Qed.
Print Assumptions C01_exactly_once_on_quiescence.

(* the hypotheses are inhabited by non-trivial histories (reentrant cancel with a failing
   follow-up send on the connection under read; a getaddrinfo whose first query is released by a
   callback while it is being sent), on which the model runs to completion *)
Example C01_hypotheses_inhabited :
  NoDup (hist_toks h_sibling_cancels)
  /\ run (mkcfg all_fixed 1) 60 h_sibling_cancels []
     = Ok [EvReq 1; EvReq 2; EvCb 1 11%Z; EvCb 2 24%Z; EvDestroyBegin; EvDestroyEnd; EvEnd]
  /\ NoDup (hist_toks h_qid_after_free)
  /\ run (mkcfg all_fixed 4) 60 h_qid_after_free []
     = Ok [EvReq 9; EvReq 1; EvReq 5; EvCb 1 0%Z; EvCb 9 24%Z; EvCb 5 24%Z; EvDestroyBegin; EvDestroyEnd; EvEnd].
Proof.
  split; [vm_compute; repeat constructor; simpl; intuition discriminate|]. split; [vm_compute; reflexivity|].
  split; [vm_compute; repeat constructor; simpl; intuition discriminate|]. vm_compute. reflexivity.
Qed.

(* before fixes/C01-cancel-complete.patch "when ares_cancel() returns every request made before it
   has completed" did not hold: a query waiting in ares_cancel's private list could be completed
   with a connection error by a callback of an earlier cancelled request, and a gethostbyaddr /
   getnameinfo configured with two DNS lookups then went on with a new query that survived the
   cancellation.  The witness is the LC trace of the real library without that fix. *)
Theorem C01_pinned_cancel_incomplete_refuted :
  exists cf fuel h final tr, cf_fix cf = without_cancelmark /\ run cf fuel h final = Ok tr /\ ~ complete_at_cancel tr.
Proof. exact cancel_incomplete. Qed.
Print Assumptions C01_pinned_cancel_incomplete_refuted.

(* ---- the pinned tree does not satisfy the property: one witness per defect ---- *)
Theorem C01_pinned_cancel_in_callback_refuted :
  exists h final k, run (mkcfg without_unlink 3) 60 h final = UB k /\ accepted (run (mkcfg all_fixed 3) 60 h final) = true.
Proof. exists h_cancel_in_cb, [], UseAfterFree. vm_compute. split; reflexivity. Qed.
Print Assumptions C01_pinned_cancel_in_callback_refuted.

Theorem C01_pinned_search_eformerr_refuted :
  exists h final k, run (mkcfg without_search 3) 60 h final = UB k /\ accepted (run (mkcfg all_fixed 3) 60 h final) = true.
Proof. exists h_search_eformerr, [], UseAfterFree. vm_compute. split; reflexivity. Qed.
Print Assumptions C01_pinned_search_eformerr_refuted.

Theorem C01_pinned_sibling_cancels_refuted :
  exists h final k, run (mkcfg without_revalidate 1) 60 h final = UB k /\ accepted (run (mkcfg all_fixed 1) 60 h final) = true.
Proof. exists h_sibling_cancels, [], UseAfterFree. vm_compute. split; reflexivity. Qed.
Print Assumptions C01_pinned_sibling_cancels_refuted.

Theorem C01_pinned_conn_under_read_refuted :
  exists h final k, run (mkcfg without_connread 3) 60 h final = UB k /\ accepted (run (mkcfg all_fixed 3) 60 h final) = true.
Proof. exists h_followup_fails, f_followup_fails, UseAfterFree. vm_compute. split; reflexivity. Qed.
Print Assumptions C01_pinned_conn_under_read_refuted.

(* found with this model in the tree that already had the four fixes: ares_send_nolock stores the
   query id into a host_query that a callback released while ares_send_query was running *)
Theorem C01_pinned_qid_after_free_refuted :
  exists h final k, run (mkcfg without_qidearly 4) 60 h final = UB k /\ accepted (run (mkcfg all_fixed 4) 60 h final) = true.
Proof. exists h_qid_after_free, [], UseAfterFree. vm_compute. split; reflexivity. Qed.
Print Assumptions C01_pinned_qid_after_free_refuted.
