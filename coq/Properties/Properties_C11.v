(* C11 - concurrent use of one channel is race-free and deadlock-free (partial: see MANIFEST). *)
From Coq Require Import String List Bool.
From CAres.Core Require Import Locks Locks_proofs LockDiscipline.
From CAres.Gen Require Import LockFacts.

(* Every public entry point of include/ares.h that takes a channel (and the event / reload
   thread bodies) brackets its channel accesses with the channel lock, balanced on every
   path; nothing that takes the channel lock is called under the event-thread mutex.
   The facts are regenerated from the C source on every run (finite domain: proof by
   computation over the generated table). *)
Theorem C11_discipline : discipline_ok = true.
Proof. vm_compute. reflexivity. Qed.
Print Assumptions C11_discipline.

(* In the interleaving semantics, programs that follow the discipline never race ... *)
Theorem C11_no_race : forall (progs : nat -> prog),
  (forall i, disciplined 0 (progs i) = true) ->
  forall s, reach (initial progs) s -> ~ race s.
Proof. exact no_race. Qed.
Print Assumptions C11_no_race.

(* ... and never deadlock on the (recursive) channel lock. *)
Theorem C11_no_deadlock : forall (progs : nat -> prog),
  (forall i, disciplined 0 (progs i) = true) ->
  forall n, (forall i, n <= i -> progs i = nil) ->
  forall s, reach (initial progs) s -> (exists i, unfinished s i) -> exists k, enabled s k.
Proof. exact no_deadlock. Qed.
Print Assumptions C11_no_deadlock.

(* Waiting for an empty queue reports success only when no request is outstanding at the
   moment it returns (it re-checks the queue under the lock after every wake-up). *)
Theorem C11_wait_empty : forall len obs l, wait_empty len obs = Some (true, l) -> l = 0.
Proof. exact wait_empty_success. Qed.
Print Assumptions C11_wait_empty.

(* No lost wake-up on the "queue empty" condition: with the broadcast the code uses (checked
   in C11_discipline: notify_broadcasts), whenever the queue is empty no thread is still
   blocked in ares_queue_wait_empty, for any number of waiters and any history ... *)
Theorem C11_no_lost_wakeup : forall tr, w_len (wrun true tr) = 0 -> w_blocked (wrun true tr) = nil.
Proof. exact no_lost_wakeup. Qed.
Print Assumptions C11_no_lost_wakeup.

(* ... and a single-waiter signal in its place would lose the second waiter. *)
Theorem C11_lost_wakeup_with_signal_refuted :
  exists tr, w_len (wrun false tr) = 0 /\ w_blocked (wrun false tr) <> nil.
Proof. exact lost_wakeup_with_signal. Qed.
Print Assumptions C11_lost_wakeup_with_signal_refuted.

(* The loop of ares_queue_wait_empty() as the model [wait_empty] assumes it, read off the source
   on every run (Gen/WaitFacts.v): the queue length is re-examined after EVERY wake-up (it is the
   loop condition), the only other way out is the timeout, every wait is a condition wait on the
   channel lock, and the status computed is what is returned. *)
From CAres.Gen Require Import WaitFacts.
Theorem C11_wait_empty_loop_shape :
  wait_loop_condition = "ares_llist_len(channel->all_queries)"%string /\
  wait_loop_exits = ("break if status == ARES_ETIMEOUT"%string :: nil) /\
  wait_loop_waits = ("ares_thread_cond_timedwait"%string :: "ares_thread_cond_wait"%string :: nil) /\
  wait_after_loop = "ares_thread_mutex_unlock(channel->lock); return status;"%string.
Proof. vm_compute. repeat split; reflexivity. Qed.
Print Assumptions C11_wait_empty_loop_shape.

(* a waiter that took a notification for proof (no second look at the queue) can report success
   with requests outstanding: the queue drained and filled again before it ran *)
Theorem C11_wait_empty_without_recheck_refuted :
  exists len obs, wait_empty_norecheck len obs = Some (true, 1).
Proof. exists 1, (Woken 1 :: nil). reflexivity. Qed.
Print Assumptions C11_wait_empty_without_recheck_refuted.
