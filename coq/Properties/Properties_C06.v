(* C06 - retries are bounded, policy-conforming, and every query terminates.
   Statements only; proofs are in Core/{Calc,Metrics,Time,Retry}_proofs.v.  The theorems about
   c_ares_calc_query_timeout / c_timeadd / c_ares_metric_timestamp are about the Gallina text
   regenerated from the CURRENT tree; the defects of the pinned tree are the *_refuted
   theorems about its frozen copy (Core/CalcPinned.v) and about the non-strict machine. *)
From CAres.Base Require Import CInt.
From CAres.Gen Require Import Consts LeafFns.
From CAres.Core Require Import Time Time_proofs Metrics Metrics_proofs Calc Calc_proofs CalcPinned
  Retry Retry_inv Retry_proofs.
Local Open Scope Z_scope.

(* ---- timeout arithmetic ---- *)

(* base timeout (ares_metrics_server_timeout, hand model over the generated bucket timestamp):
   whatever latencies were recorded, within [min(250, M), M], M = maxtimeout or 5000 *)
Theorem C06_base_timeout_range : forall timeout maxtimeout now ms,
  tv_ok now ->
  Forall (fun b => 0 <= b_total_count b /\ 0 <= b_prev_total_count b) ms ->
  exists base, metrics_server_timeout timeout maxtimeout now ms = Ok base /\
    Z.min MIN_TIMEOUT_MS (max_timeout_of maxtimeout) <= base <= max_timeout_of maxtimeout.
Proof. exact server_timeout_range. Qed.
Print Assumptions C06_base_timeout_range.

(* ares_metric_timestamp (generated, switch over the bucket kind): no UB for clock values in range *)
Theorem C06_metric_timestamp_no_ub : forall bucket is_previous now_sec,
  - 2 ^ 62 <= now_sec < 2 ^ 62 -> exists ts, c_ares_metric_timestamp bucket is_previous now_sec = Ok ts.
Proof. exact metric_timestamp_ok. Qed.
Print Assumptions C06_metric_timestamp_no_ub.

(* no undefined behaviour in ares_calc_query_timeout for EVERY size_t value of the base
   timeout, server count, try_count, maxtimeout and jitter amount (in particular every legal
   option value and every try_count the retry machine can reach) *)
Theorem C06_calc_timeout_no_ub : forall base num_servers try_count maxtimeout r fp,
  size_t_ok base -> size_t_ok num_servers -> size_t_ok try_count -> size_t_ok maxtimeout ->
  size_t_ok fp ->
  is_ub (calc_query_timeout base num_servers try_count maxtimeout r fp) = false.
Proof. exact calc_no_ub. Qed.
Print Assumptions C06_calc_timeout_no_ub.

(* the generated function computes exactly the policy: saturating doubling per round, cap,
   jitter, floor *)
Theorem C06_calc_timeout_is_policy : forall base num_servers try_count maxtimeout r fp,
  size_t_ok base -> size_t_ok num_servers -> size_t_ok try_count -> size_t_ok maxtimeout ->
  size_t_ok fp ->
  calc_query_timeout base num_servers try_count maxtimeout r fp
  = Ok (calc_spec base num_servers try_count maxtimeout fp).
Proof. exact calc_equals_spec. Qed.
Print Assumptions C06_calc_timeout_is_policy.

(* each attempt waits no less than the base timeout, no more than the configured maximum
   when one is set (the base itself never exceeds it, C06_base_timeout_range), no more than the
   doubled-and-capped value, and less than 2^63 ms *)
Theorem C06_wait_bounds : forall base num_servers try_count maxtimeout fp,
  1 <= num_servers -> 0 <= try_count ->
  0 <= base <= MAX_TIMEPLUS -> 0 <= maxtimeout -> (maxtimeout <> 0 -> base <= maxtimeout) ->
  jitter_ok base num_servers try_count maxtimeout fp ->
  let w := calc_spec base num_servers try_count maxtimeout fp in
  base <= w <= MAX_TIMEPLUS /\
  (maxtimeout <> 0 -> w <= maxtimeout) /\
  w <= timeplus_capped base num_servers try_count maxtimeout /\
  w = Z.max base (if rounds_of try_count num_servers >? 0
                  then timeplus_capped base num_servers try_count maxtimeout - fp
                  else timeplus_capped base num_servers try_count maxtimeout).
Proof. exact calc_wait_bounds. Qed.
Print Assumptions C06_wait_bounds.

(* the doubling policy: more rounds never shorten the un-jittered wait *)
Theorem C06_doubling_monotone : forall base r1 r2,
  0 <= base <= MAX_TIMEPLUS -> r1 <= r2 -> doubled base r1 <= doubled base r2.
Proof. exact doubled_mono. Qed.
Print Assumptions C06_doubling_monotone.

(* timeadd (generated): exact, normalised, no UB *)
Theorem C06_timeadd_exact : forall now ms, tv_ok now -> 0 <= ms < 2 ^ 63 ->
  exists r, timeadd now ms = Ok r /\ 0 <= tv_usec r < 1000000 /\ tv_us r = tv_us now + ms * 1000.
Proof. exact timeadd_exact. Qed.
Print Assumptions C06_timeadd_exact.

(* one attempt end to end (ares_send_query): deadline = now + wait exactly, strictly after
   now, for every legal configuration *)
Theorem C06_attempt_deadline : forall now base num_servers try_count maxtimeout r fp,
  tv_ok now -> tv_sec now < 2 ^ 61 ->
  1 <= num_servers < 2 ^ 64 -> 0 <= try_count < 2 ^ 64 ->
  1 <= base < 2 ^ 31 -> 0 <= maxtimeout < 2 ^ 31 -> (maxtimeout <> 0 -> base <= maxtimeout) ->
  jitter_ok base num_servers try_count maxtimeout fp ->
  exists w d, attempt_deadline now base num_servers try_count maxtimeout r fp = Ok (w, d) /\
    w = calc_spec base num_servers try_count maxtimeout fp /\
    base <= w /\ (maxtimeout <> 0 -> w <= maxtimeout) /\
    tv_ok d /\ tv_us d = tv_us now + w * 1000 /\ tv_us now < tv_us d.
Proof. exact attempt_deadline_exact. Qed.
Print Assumptions C06_attempt_deadline.

Theorem C06_calc_example :
  jitter_ok 2000 4 9 10000 1000 /\ calc_query_timeout 2000 4 9 10000 12345 1000 = Ok 7000.
Proof. exact calc_example. Qed.
Print Assumptions C06_calc_example.

(* the pinned tree's version of the same function: shift by >= 64 (UB), silent wrap, and a
   wait >= 2^63 ms that timeadd turns into a deadline in the past *)
Theorem C06_calc_timeout_refuted_pinned :
  exists base num_servers try_count maxtimeout r fp,
    250 <= base <= 5000 /\ num_servers = 1 /\ try_count < num_servers * 65 /\ maxtimeout = 0 /\
    pinned_calc_query_timeout base num_servers try_count maxtimeout r fp = UB ShiftTooWide.
Proof. exact pinned_calc_refuted_shift. Qed.
Print Assumptions C06_calc_timeout_refuted_pinned.

Theorem C06_doubling_refuted_pinned :
  pinned_calc_query_timeout 4096 1 51 100000 0 0 = Ok 100000 /\
  pinned_calc_query_timeout 4096 1 52 100000 0 0 = Ok 4096.
Proof. exact pinned_calc_wrap_collapses. Qed.
Print Assumptions C06_doubling_refuted_pinned.

Theorem C06_wait_refuted_pinned :
  exists now base try_count w d,
    tv_okb now = true /\ 250 <= base <= 5000 /\
    pinned_calc_query_timeout base 1 try_count 0 0 0 = Ok w /\
    timeadd now w = Ok d /\ tv_us d < tv_us now.
Proof. exact pinned_deadline_before_now. Qed.
Print Assumptions C06_wait_refuted_pinned.

(* ---- the retry machine (cfg_strict = true: replies are only accepted on the connection the
        query is outstanding on, as in the current tree) ---- *)

(* for ALL event sequences (timeouts, reply kinds incl. duplicates and stale ones, connection
   failures at open/send/recv, server-list changes up to cfg_smax servers):
   transmissions <= servers x tries + 1 + 1 + COOKIE_RESEND_MAX *)
Theorem C06_transmissions_bounded : forall cfg usevc0 has_opt0 no_retries0,
  cfg_strict cfg = true -> 1 <= cfg_tries cfg -> 1 <= cfg_smax cfg ->
  cfg_smax cfg * cfg_tries cfg < 2 ^ 64 ->
  forall ins, Forall (input_ok cfg) ins ->
  count_tx (snd (run cfg (q_init usevc0 has_opt0 no_retries0) ins)) <= bound cfg.
Proof. exact transmissions_bounded. Qed.
Print Assumptions C06_transmissions_bounded.

(* the extracted acceptor: an implementation trace it accepts has at most [bound] transmissions *)
Theorem C06_accepted_trace_bounded : forall cfg usevc0 has_opt0 no_retries0,
  cfg_strict cfg = true -> 1 <= cfg_tries cfg -> 1 <= cfg_smax cfg ->
  cfg_smax cfg * cfg_tries cfg < 2 ^ 64 ->
  forall tr, retry_accepts cfg (q_init usevc0 has_opt0 no_retries0) tr = true -> transmissions tr <= bound cfg.
Proof. exact accepted_trace_bounded. Qed.
Print Assumptions C06_accepted_trace_bounded.

(* termination: no event sequence changes the state of a query more than rank0 times ... *)
Theorem C06_terminates_no_cycle : forall cfg usevc0 has_opt0 no_retries0,
  cfg_strict cfg = true -> 1 <= cfg_tries cfg -> 1 <= cfg_smax cfg ->
  cfg_smax cfg * cfg_tries cfg < 2 ^ 64 ->
  forall ins, Forall (input_ok cfg) ins ->
  changes cfg usevc0 has_opt0 (q_init usevc0 has_opt0 no_retries0) ins <= rank0 cfg.
Proof. exact state_changes_bounded. Qed.
Print Assumptions C06_terminates_no_cycle.

(* ... an outstanding query always reacts to its deadline (with C07: the deadline is always
   reported to the application and acted upon when processed) ... *)
Theorem C06_timeout_progress : forall cfg usevc0 has_opt0,
  cfg_strict cfg = true -> 1 <= cfg_tries cfg ->
  cfg_smax cfg * cfg_tries cfg < 2 ^ 64 ->
  forall q tx c servers,
  Inv cfg usevc0 has_opt0 q tx -> q_ended q = None -> q_sending q = false -> q_conn q = Some c ->
  0 <= servers <= cfg_smax cfg ->
  exists q' outs, step cfg q (ITimeout servers) = (true, q', outs) /\
                  rank cfg usevc0 has_opt0 q' < rank cfg usevc0 has_opt0 q.
Proof. exact timeout_always_progresses. Qed.
Print Assumptions C06_timeout_progress.

(* ... and when the budget is used up (or the query must not be retried) the failure
   completes it with a definite, non-success status *)
Theorem C06_terminates : forall cfg usevc0 has_opt0,
  1 <= cfg_tries cfg -> cfg_smax cfg * cfg_tries cfg < 2 ^ 64 ->
  forall q tx c servers,
  Inv cfg usevc0 has_opt0 q tx -> q_ended q = None -> q_sending q = false -> q_conn q = Some c ->
  0 <= servers <= cfg_smax cfg ->
  (q_no_retries q = true \/ servers * cfg_tries cfg <= q_try_count q + 1) ->
  exists q' st, step cfg q (ITimeout servers) = (true, q', [ODone st]) /\
                q_ended q' = Some st /\ st <> ARES_SUCCESS.
Proof. exact failure_when_exhausted_ends. Qed.
Print Assumptions C06_terminates.

(* one read on one connection (read_answers), whatever it contains - retry-triggering replies,
   duplicates, answers, messages that do not parse - and whatever happens to the connection:
   when the read ends the query is not left behind in the requeue array; it has been handed to
   ares_send_query, or completed, or is still outstanding on a connection (hence in the timeout
   index), and the invariant (hence the bound and the termination measure) still holds *)
Theorem C06_requeue_flushed : forall cfg usevc0 has_opt0,
  cfg_strict cfg = true -> 1 <= cfg_tries cfg ->
  cfg_smax cfg * cfg_tries cfg < 2 ^ 64 ->
  forall servers on_tcp this_conn q tx items q' outs,
  0 <= servers <= cfg_smax cfg ->
  Inv cfg usevc0 has_opt0 q tx -> q_sending q = false ->
  read_batch cfg true servers on_tcp this_conn q items = (q', outs) ->
  Inv cfg usevc0 has_opt0 q' (tx + count_tx outs) /\ settled q'.
Proof. exact read_batch_settles. Qed.
Print Assumptions C06_requeue_flushed.

(* the variant that skips the flush when the walk over the read ended with an error
   (SERVFAIL, then a message that does not parse, in one read): the query is orphaned *)
Theorem C06_requeue_flush_refuted_without_flush :
  exists cfg q items q' outs,
    cfg_strict cfg = true /\ q_conn q = Some false /\ q_ended q = None /\
    read_batch cfg false 1 false true q items = (q', outs) /\ orphaned q' /\ q_queued q' = O /\
    settled (fst (read_batch cfg true 1 false true q items)).
Proof. exact read_batch_without_flush_refuted. Qed.
Print Assumptions C06_requeue_flush_refuted_without_flush.

(* the machine of the pinned tree (replies matched by id and question only) is NOT bounded:
   8 copies of a truncated reply in one read give 9 transmissions with a bound of 6 *)
Theorem C06_transmissions_refuted_pinned :
  exists ins, Forall (input_ok pinned_cfg) ins /\
    count_tx (snd (run pinned_cfg (q_init false true false) ins)) > bound pinned_cfg.
Proof. exact pinned_transmissions_refuted. Qed.
Print Assumptions C06_transmissions_refuted_pinned.

(* hypotheses inhabited, machine non-trivial: 5 of the 6 allowed transmissions, then ETIMEOUT *)
Theorem C06_example_near_bound :
  let cfg := Config 1 1 false false true in
  let ins := [ISend 1 (SoWriteOk true); IReply 1 false true RkBadCookie; IFlush;
              ISend 1 (SoWriteOk true); IReply 1 false true RkBadCookie; IFlush;
              ISend 1 (SoWriteOk true); IReply 1 false true RkBadCookie; IFlush;
              ISend 1 (SoWriteOk false); IReply 1 true true RkEdns; IFlush;
              ISend 1 (SoWriteOk false); ITimeout 1] in
  let r := run cfg (q_init false true false) ins in
  count_tx (snd r) = 5 /\ q_ended (fst r) = Some ARES_ETIMEOUT /\ bound cfg = 6.
Proof. exact strict_near_bound. Qed.
Print Assumptions C06_example_near_bound.
