(* C16 - configuration is saved, duplicated and re-applied losslessly; user settings win.
   Statements only; proofs are in Config/Options_proofs.v. *)
From CAres.Config Require Import Spec Options_proofs.
From CAres.Gen Require Import Consts.

(* C16_user_wins: every field ares_sysconfig_apply can write is guarded by the option-mask bit
   recorded when the application set it (with fixes/C16-usevc-user-flags.patch also the flags),
   every other field is not written ... *)
Theorem C16_user_wins_apply : forall c s, guarded_same c (sysconfig_apply c s).
Proof. exact sysconfig_apply_user_wins. Qed.
Print Assumptions C16_user_wins_apply.

(* ... at every later reinit ... *)
Theorem C16_user_wins_reinit : forall nf e c c', reinit nf e c = Ok c' -> guarded_same c c'.
Proof. exact reinit_user_wins. Qed.
Print Assumptions C16_user_wins_reinit.

(* ... and at initialisation: the value passed in the options is the channel's value after
   options, system configuration and defaults have been applied *)
Theorem C16_user_wins_init : forall nf e o m c,
  init_options nf e o m = Ok c ->
  (has m B_FLAGS = true -> c_flags c = u32 (o_flags o)) /\
  (has m B_TRIES = true -> (0 < o_tries o)%Z -> c_tries c = o_tries o) /\
  (has m B_NDOTS = true -> (0 <= o_ndots o)%Z -> c_ndots c = o_ndots o) /\
  (has m B_TIMEOUTMS = true -> (0 < o_timeout o < 2 ^ 32)%Z -> c_timeout c = o_timeout o) /\
  (has m B_DOMAINS = true -> o_domains o <> [] -> c_domains c = o_domains o) /\
  (has m B_LOOKUPS = true -> forall l, o_lookups o = Some l -> c_lookups c = Some l) /\
  (has m B_SORTLIST = true -> c_sortlist c = o_sortlist o) /\
  (has m B_NOROTATE = true -> c_rotate c = false) /\
  (has m B_ROTATE = true -> has m B_NOROTATE = false -> c_rotate c = true).
Proof. exact init_user_wins. Qed.
Print Assumptions C16_user_wins_init.

(* the code as pinned: "options use-vc" is OR-ed into flags the application set *)
Theorem C16_user_wins_pinned_refuted :
  exists c s, has (c_optmask c) B_FLAGS = true /\ c_flags (sysconfig_apply_gen false c s) <> c_flags c.
Proof. exact sysconfig_apply_pinned_overrides_flags. Qed.
Print Assumptions C16_user_wins_pinned_refuted.

(* C16_save_init_id.  Full statement: effective (init (save c)) = effective c on every field the
   mask covers.  Proved for every channel satisfying chan_wf (the shape ares_init_options
   produces from int-sized option values; inhabited, see C16_save_init_hypotheses_inhabited) and
   for all covered fields except the server list (the legacy struct holds IPv4 addresses only;
   servers are the subject of C16_dup / C16_csv_fixpoint and of the correspondence run).
   Missing: channels whose timeout exceeds INT_MAX ms (C16_save_init_timeout_refuted). *)
Theorem C16_save_init_id_partial : forall nf g e c o m' c1,
  chan_wf c -> (has (c_optmask c) B_DOMAINS = true -> c_domains c <> []) ->
  save_options g c = Ok (o, m') -> init_options nf e o m' = Ok c1 ->
  covered_same c c1.
Proof. exact save_init_effective. Qed.
Print Assumptions C16_save_init_id_partial.

Theorem C16_save_init_hypotheses_inhabited :
  chan_wf ex_chan /\ (has (c_optmask ex_chan) B_DOMAINS = true -> c_domains ex_chan <> []) /\
  exists o m, save_options 0 ex_chan = Ok (o, m).
Proof. exact chan_wf_example. Qed.
Print Assumptions C16_save_init_hypotheses_inhabited.

Theorem C16_save_init_timeout_refuted :
  option_map c_timeout (match init_by_options (mkOpts 0 3000000 0 0 0 0 0 0 [] [] None 0 [] 0 0 0 0 0 0) 2 with Ok c => Some c | _ => None end)
    = Some (c_timeout wt_chan) /\
  Z.testbit (c_optmask wt_chan) B_TIMEOUTMS = true /\
  match save_options 0 wt_chan with
  | Ok (o', m') => match init_by_options o' m' with
                   | Ok c0 => Z.testbit (c_optmask c0) B_TIMEOUTMS = false /\ c_timeout c0 = 0%Z
                   | _ => False
                   end
  | _ => False
  end.
Proof. exact save_init_timeout_refuted. Qed.
Print Assumptions C16_save_init_timeout_refuted.
