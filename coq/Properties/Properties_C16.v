(* C16 - configuration is saved, duplicated and re-applied losslessly; user settings win.
   Statements only; proofs are in Config/Options_proofs.v. *)
From CAres.Config Require Import Spec Options_proofs.
From CAres.Gen Require Import Consts.

(* C16_user_wins: every field ares_sysconfig_apply can write is guarded by the option-mask bit
   recorded when the application set it (with fixes/C16-usevc-user-flags.patch also the flags),
   every other field is not written ... *)
Theorem C16_user_wins_apply : forall c s, guarded_same c (sysconfig_apply c s).
Proof. exact sysconfig_apply_user_wins. Qed.
Print Assumptions C16_user_wins_apply.

(* ... at every later reinit ... *)
Theorem C16_user_wins_reinit : forall nf e c c', reinit nf e c = Ok c' -> guarded_same c c'.
Proof. exact reinit_user_wins. Qed.
Print Assumptions C16_user_wins_reinit.

(* ... and at initialisation: the value passed in the options is the channel's value after
   options, system configuration and defaults have been applied *)
Theorem C16_user_wins_init : forall nf e o m c,
  init_options nf e o m = Ok c ->
  (has m B_FLAGS = true -> c_flags c = u32 (o_flags o)) /\
  (has m B_TRIES = true -> (0 < o_tries o)%Z -> c_tries c = o_tries o) /\
  (has m B_NDOTS = true -> (0 <= o_ndots o)%Z -> c_ndots c = o_ndots o) /\
  (has m B_TIMEOUTMS = true -> (0 < o_timeout o < 2 ^ 32)%Z -> c_timeout c = o_timeout o) /\
  (has m B_DOMAINS = true -> o_domains o <> [] -> c_domains c = o_domains o) /\
  (has m B_LOOKUPS = true -> forall l, o_lookups o = Some l -> c_lookups c = Some l) /\
  (has m B_SORTLIST = true -> c_sortlist c = o_sortlist o) /\
  (has m B_NOROTATE = true -> c_rotate c = false) /\
  (has m B_ROTATE = true -> has m B_NOROTATE = false -> c_rotate c = true).
Proof. exact init_user_wins. Qed.
Print Assumptions C16_user_wins_init.

(* the code as pinned: "options use-vc" is OR-ed into flags the application set *)
Theorem C16_user_wins_pinned_refuted :
  exists c s, has (c_optmask c) B_FLAGS = true /\ c_flags (sysconfig_apply_gen false c s) <> c_flags c.
Proof. exact sysconfig_apply_pinned_overrides_flags. Qed.
Print Assumptions C16_user_wins_pinned_refuted.
