(* C16 - configuration is saved, duplicated and re-applied losslessly; user settings win.
   Statements only; proofs are in Config/Options_proofs.v. *)
From CAres.Config Require Import Spec Vif Options_proofs Wf_proofs Csv_proofs Dup_proofs Witness.
From CAres.Gen Require Import Consts.
From Coq Require Import String.
Local Open Scope string_scope.

(* C16_user_wins: every field ares_sysconfig_apply can write is guarded by the option-mask bit
   recorded when the application set it (with fixes/C16-usevc-user-flags.patch also the flags),
   every other field is not written ... *)
Theorem C16_user_wins_apply : forall c s, guarded_same c (sysconfig_apply c s).
Proof. exact sysconfig_apply_user_wins. Qed.
Print Assumptions C16_user_wins_apply.

(* ... at every later reinit ... *)
Theorem C16_user_wins_reinit : forall nf e c c', reinit nf e c = Ok c' -> guarded_same c c'.
Proof. exact reinit_user_wins. Qed.
Print Assumptions C16_user_wins_reinit.

(* ... and at initialisation: the value passed in the options is the channel's value after
   options, system configuration and defaults have been applied *)
Theorem C16_user_wins_init : forall nf e o m c,
  init_options nf e o m = Ok c ->
  (has m B_FLAGS = true -> c_flags c = u32 (o_flags o)) /\
  (has m B_TRIES = true -> (0 < o_tries o)%Z -> c_tries c = o_tries o) /\
  (has m B_NDOTS = true -> (0 <= o_ndots o)%Z -> c_ndots c = o_ndots o) /\
  (has m B_TIMEOUTMS = true -> (0 < o_timeout o < 2 ^ 32)%Z -> c_timeout c = o_timeout o) /\
  (has m B_DOMAINS = true -> o_domains o <> [] -> c_domains c = o_domains o) /\
  (has m B_LOOKUPS = true -> forall l, o_lookups o = Some l -> c_lookups c = Some l) /\
  (has m B_SORTLIST = true -> c_sortlist c = o_sortlist o) /\
  (has m B_NOROTATE = true -> c_rotate c = false) /\
  (has m B_ROTATE = true -> has m B_NOROTATE = false -> c_rotate c = true).
Proof. exact init_user_wins. Qed.
Print Assumptions C16_user_wins_init.

(* the code as pinned: "options use-vc" is OR-ed into flags the application set *)
Theorem C16_user_wins_pinned_refuted :
  exists c s, has (c_optmask c) B_FLAGS = true /\ c_flags (sysconfig_apply_gen false c s) <> c_flags c.
Proof. exact sysconfig_apply_pinned_overrides_flags. Qed.
Print Assumptions C16_user_wins_pinned_refuted.

(* C16_save_init_id.  Full statement: effective (init (save c)) = effective c on every field the
   mask covers.  Proved for every channel satisfying chan_wf (the shape ares_init_options
   produces from int-sized option values; inhabited, see C16_save_init_hypotheses_inhabited) and
   for all covered fields except the server list (the legacy struct holds IPv4 addresses only;
   servers are the subject of C16_dup / C16_csv_fixpoint and of the correspondence run).
   Channels whose timeout exceeded INT_MAX ms (ARES_OPT_TIMEOUT above 2147483 s) cannot arise any
   more: C16_timeout_seconds_clamped. *)
Theorem C16_save_init_id_partial : forall nf g e c o m' c1,
  chan_wf c -> (has (c_optmask c) B_DOMAINS = true -> c_domains c <> []) ->
  save_options g c = Ok (o, m') -> init_options nf e o m' = Ok c1 ->
  covered_same c c1.
Proof. exact save_init_effective. Qed.
Print Assumptions C16_save_init_id_partial.

(* chan_wf is not an assumption about channels in general: every channel that ares_init_options
   returns for int-sized option values and a mask of defined bits satisfies it ... *)
Theorem C16_init_gives_wf : forall nf e o m c,
  opts_int o -> fits24 m -> init_options nf e o m = Ok c -> chan_wf c.
Proof. exact init_options_wf. Qed.
Print Assumptions C16_init_gives_wf.

(* ... hence C16_save_init_id with hypotheses on the application's input only (the remaining
   side condition: ARES_OPT_DOMAINS with an empty list asks for the host-name default, which
   depends on the host name at the time of each initialisation) *)
Theorem C16_save_init_id : forall nf g e e' o m c o' m' c1,
  opts_int o -> fits24 m -> init_options nf e o m = Ok c ->
  (has (c_optmask c) B_DOMAINS = true -> c_domains c <> []) ->
  save_options g c = Ok (o', m') -> init_options nf e' o' m' = Ok c1 -> covered_same c c1.
Proof. exact save_init_of_init. Qed.
Print Assumptions C16_save_init_id.

Theorem C16_save_init_hypotheses_inhabited :
  chan_wf ex_chan /\ (has (c_optmask ex_chan) B_DOMAINS = true -> c_domains ex_chan <> []) /\
  exists o m, save_options 0 ex_chan = Ok (o, m).
Proof. exact chan_wf_example. Qed.
Print Assumptions C16_save_init_hypotheses_inhabited.

Theorem C16_timeout_seconds_clamped :
  option_map c_timeout (match init_by_options (mkOpts 0 3000000 0 0 0 0 0 0 [] [] None 0 [] 0 0 0 0 0 0) 2 with Ok c => Some c | _ => None end)
    = Some (c_timeout wt_chan) /\
  c_timeout wt_chan = 2147483647%Z /\
  match save_options 0 wt_chan with
  | Ok (o', m') => match init_by_options o' m' with
                   | Ok c0 => Z.testbit (c_optmask c0) B_TIMEOUTMS = true /\ c_timeout c0 = 2147483647%Z
                   | _ => False
                   end
  | _ => False
  end.
Proof. exact save_init_timeout_clamped. Qed.
Print Assumptions C16_timeout_seconds_clamped.

(* C16_csv_fixpoint: parse_csv (render_csv l) = Ok l, and what was parsed renders back to the same
   text, for every server list that the text form can express -- both the plain form
   addr:port / [addr]:port%iface (one port for UDP and TCP) and the dns:// form
   dns://[addr%iface]:udp?tcpport=tcp (differing ports).  server_ok is that domain: ports in
   1..65535, an address outside fec0::/10, an interface name (at most 15 characters of the
   interface character set) exactly on link-local addresses, and for the dns:// form an interface
   name of RFC 3986 unreserved characters.  Outside the domain the statement is false for the code
   as it is: C16_csv_fixpoint_refuted (an interface name such as "eth0:1" with differing ports
   cannot be rendered, finding csv-unrenderable) and C16_csv_sitelocal_refuted (a fec0::/10 server
   set through the binary API renders but is dropped by the parser, open finding).
   The address functions are abstract: addr_good / addr_family_ok (inet_pton (inet_ntop a) = a,
   the character shape of inet_ntop output, and inet_pton(AF_INET6) accepting exactly the IPv6
   texts) are premises per address, checked by computation in C16_csv_fixpoint_inhabited and
   sampled on the real functions by the correspondence run (fn,f=addr cases for the round trip
   and the shape; the bracket decision of the dns:// form in every case with differing ports). *)
Theorem C16_csv_fixpoint : forall nf ifs flags cudp ctcp l txt,
  Forall (server_ok nf ifs) l ->
  ForallOrdPairs (fun a b => sconf_match cudp ctcp (entry_of b) (entry_of a) = false) l ->
  (Z.testbit flags 1 = true -> (List.length l <= 1)%nat) ->
  get_servers_csv nf l = Ok txt ->
  set_servers_csv nf ifs flags cudp ctcp [] txt = Ok l /\
  (forall l', set_servers_csv nf ifs flags cudp ctcp [] txt = Ok l' -> get_servers_csv nf l' = Ok txt).
Proof. exact csv_fixpoint_pairwise. Qed.
Print Assumptions C16_csv_fixpoint.

(* the text of one server, as the theorem sees it: rendering never fails inside the domain *)
Theorem C16_csv_renders : forall nf ifs l,
  Forall (server_ok nf ifs) l -> get_servers_csv nf l = Ok (joined (map (text_of nf) l)).
Proof. exact csv_is_joined. Qed.
Print Assumptions C16_csv_renders.

Theorem C16_csv_fixpoint_inhabited :
  exists txt, get_servers_csv inet_fns ex_servers = Ok txt /\
              set_servers_csv inet_fns (Some vif) 0 0 0 [] txt = Ok ex_servers.
Proof. exact csv_fixpoint_example. Qed.
Print Assumptions C16_csv_fixpoint_inhabited.

Theorem C16_csv_uri_example :
  (get_servers_csv nf [srv_eth0] = Ok (B "dns://[fe80::2%eth0]:5353?tcpport=53") /\
   set_servers_csv nf (Some vif) 0 0 0 [] (B "dns://[fe80::2%eth0]:5353?tcpport=53") = Ok [srv_eth0]) /\
  (set_servers_csv nf (Some vif) 0 5353 0 [] (B "fe80::2%br-lan") = Ok [srv_brlan] /\
   get_servers_csv nf [srv_brlan] = Ok (B "dns://[fe80::2%br-lan]:5353?tcpport=53") /\
   set_servers_csv nf (Some vif) 0 0 0 [] (B "dns://[fe80::2%br-lan]:5353?tcpport=53") = Ok [srv_brlan]).
Proof. exact (conj witness_uri_roundtrip fixed_brlan_roundtrip). Qed.
Print Assumptions C16_csv_uri_example.

Theorem C16_csv_fixpoint_refuted :
  set_servers_csv nf (Some vif) 0 5353 0 [] (B "fe80::2%eth0:1") = Ok [srv_alias] /\
  get_servers_csv nf [srv_alias] = Err ARES_EBADNAME.
Proof. exact witness_csv_unrenderable. Qed.
Print Assumptions C16_csv_fixpoint_refuted.

Theorem C16_csv_sitelocal_refuted :
  get_servers_csv nf [srv_sitelocal] = Ok (B "[fec0::1]:53") /\
  set_servers_csv nf (Some vif) 0 0 0 [] (B "[fec0::1]:53") = Ok [].
Proof. exact witness_csv_sitelocal. Qed.
Print Assumptions C16_csv_sitelocal_refuted.

(* C16_dup: dup c agrees with c on every covered field, on the local device / addresses / socket
   functions, and on the ordered server list, for chan_wf channels (what ares_init_options
   produces, C16_init_gives_wf) whose servers are in the domain of the text form (server_ok, both
   the plain and the dns:// form), pairwise different, and respect ARES_FLAG_PRIMARY.  Outside that
   domain ares_dup fails or loses servers: C16_csv_fixpoint_refuted, C16_csv_sitelocal_refuted and
   the open findings of findings/C16.json. *)
Theorem C16_dup : forall nf g e src d,
  chan_wf src -> (has (c_optmask src) B_DOMAINS = true -> c_domains src <> []) ->
  Forall (server_ok nf (c_ifs src)) (c_servers src) ->
  (forall cu ct, distinct cu ct (c_servers src)) ->
  (Z.testbit (c_flags src) 1 = true -> (List.length (c_servers src) <= 1)%nat) ->
  dup nf g e src = Ok d ->
  covered_same src d /\
  c_ldev d = c_ldev src /\ c_lip4 d = c_lip4 src /\ c_lip6 d = c_lip6 src /\ c_ifs d = c_ifs src /\
  (has (c_optmask src) B_SERVERS = true -> c_servers d = c_servers src).
Proof. exact dup_effective. Qed.
Print Assumptions C16_dup.
