(* C16 - configuration is saved, duplicated and re-applied losslessly; user settings win.
   Statements only; proofs are in Config/Options_proofs.v. *)
From CAres.Config Require Import Spec Vif Options_proofs Wf_proofs Csv_proofs Dup_proofs Witness.
From CAres.Gen Require Import Consts.
From Coq Require Import String.
Local Open Scope string_scope.

(* C16_user_wins: every field ares_sysconfig_apply can write is guarded by the option-mask bit
   recorded when the application set it (with fixes/C16-usevc-user-flags.patch also the flags),
   every other field is not written ... *)
Theorem C16_user_wins_apply : forall c s, guarded_same c (sysconfig_apply c s).
Proof. exact sysconfig_apply_user_wins. Qed.
Print Assumptions C16_user_wins_apply.

(* ... at every later reinit ... *)
Theorem C16_user_wins_reinit : forall nf e c c', reinit nf e c = Ok c' -> guarded_same c c'.
Proof. exact reinit_user_wins. Qed.
Print Assumptions C16_user_wins_reinit.

(* ... and at initialisation: the value passed in the options is the channel's value after
   options, system configuration and defaults have been applied *)
Theorem C16_user_wins_init : forall nf e o m c,
  init_options nf e o m = Ok c ->
  (has m B_FLAGS = true -> c_flags c = u32 (o_flags o)) /\
  (has m B_TRIES = true -> (0 < o_tries o)%Z -> c_tries c = o_tries o) /\
  (has m B_NDOTS = true -> (0 <= o_ndots o)%Z -> c_ndots c = o_ndots o) /\
  (has m B_TIMEOUTMS = true -> (0 < o_timeout o < 2 ^ 32)%Z -> c_timeout c = o_timeout o) /\
  (has m B_DOMAINS = true -> o_domains o <> [] -> c_domains c = o_domains o) /\
  (has m B_LOOKUPS = true -> forall l, o_lookups o = Some l -> c_lookups c = Some l) /\
  (has m B_SORTLIST = true -> c_sortlist c = o_sortlist o) /\
  (has m B_NOROTATE = true -> c_rotate c = false) /\
  (has m B_ROTATE = true -> has m B_NOROTATE = false -> c_rotate c = true).
Proof. exact init_user_wins. Qed.
Print Assumptions C16_user_wins_init.

(* the code as pinned: "options use-vc" is OR-ed into flags the application set *)
Theorem C16_user_wins_pinned_refuted :
  exists c s, has (c_optmask c) B_FLAGS = true /\ c_flags (sysconfig_apply_gen false c s) <> c_flags c.
Proof. exact sysconfig_apply_pinned_overrides_flags. Qed.
Print Assumptions C16_user_wins_pinned_refuted.

(* C16_save_init_id.  Full statement: effective (init (save c)) = effective c on every field the
   mask covers.  Proved for every channel satisfying chan_wf (the shape ares_init_options
   produces from int-sized option values; inhabited, see C16_save_init_hypotheses_inhabited) and
   for all covered fields except the server list (the legacy struct holds IPv4 addresses only;
   servers are the subject of C16_dup / C16_csv_fixpoint and of the correspondence run).
   Channels whose timeout exceeded INT_MAX ms (ARES_OPT_TIMEOUT above 2147483 s) cannot arise any
   more: C16_timeout_seconds_clamped. *)
Theorem C16_save_init_id_partial : forall nf g e c o m' c1,
  chan_wf c -> (has (c_optmask c) B_DOMAINS = true -> c_domains c <> []) ->
  save_options g c = Ok (o, m') -> init_options nf e o m' = Ok c1 ->
  covered_same c c1.
Proof. exact save_init_effective. Qed.
Print Assumptions C16_save_init_id_partial.

(* chan_wf is not an assumption about channels in general: every channel that ares_init_options
   returns for int-sized option values and a mask of defined bits satisfies it ... *)
Theorem C16_init_gives_wf : forall nf e o m c,
  opts_int o -> fits24 m -> init_options nf e o m = Ok c -> chan_wf c.
Proof. exact init_options_wf. Qed.
Print Assumptions C16_init_gives_wf.

(* ... hence C16_save_init_id with hypotheses on the application's input only (the remaining
   side condition: ARES_OPT_DOMAINS with an empty list asks for the host-name default, which
   depends on the host name at the time of each initialisation) *)
Theorem C16_save_init_id : forall nf g e e' o m c o' m' c1,
  opts_int o -> fits24 m -> init_options nf e o m = Ok c ->
  (has (c_optmask c) B_DOMAINS = true -> c_domains c <> []) ->
  save_options g c = Ok (o', m') -> init_options nf e' o' m' = Ok c1 -> covered_same c c1.
Proof. exact save_init_of_init. Qed.
Print Assumptions C16_save_init_id.

Theorem C16_save_init_hypotheses_inhabited :
  chan_wf ex_chan /\ (has (c_optmask ex_chan) B_DOMAINS = true -> c_domains ex_chan <> []) /\
  exists o m, save_options 0 ex_chan = Ok (o, m).
Proof. exact chan_wf_example. Qed.
Print Assumptions C16_save_init_hypotheses_inhabited.

Theorem C16_timeout_seconds_clamped :
  option_map c_timeout (match init_by_options (mkOpts 0 3000000 0 0 0 0 0 0 [] [] None 0 [] 0 0 0 0 0 0) 2 with Ok c => Some c | _ => None end)
    = Some (c_timeout wt_chan) /\
  c_timeout wt_chan = 2147483647%Z /\
  match save_options 0 wt_chan with
  | Ok (o', m') => match init_by_options o' m' with
                   | Ok c0 => Z.testbit (c_optmask c0) B_TIMEOUTMS = true /\ c_timeout c0 = 2147483647%Z
                   | _ => False
                   end
  | _ => False
  end.
Proof. exact save_init_timeout_clamped. Qed.
Print Assumptions C16_timeout_seconds_clamped.

(* C16_csv_fixpoint.  Full statement: parse_csv (render_csv l) = Ok l and it renders back to the
   same text, for every server list a channel can hold.  Proved for lists whose servers use one
   port for UDP and TCP (the plain form  addr:port / [addr]:port%iface ), under the per-address
   premise addr_good (inet_pton (inet_ntop a) = a and the character shape of inet_ntop output;
   checked by computation in C16_csv_fixpoint_inhabited, sampled on the real functions by the
   correspondence run).  Missing: servers with differing UDP/TCP ports (dns:// form): shown on a
   concrete servers in C16_csv_uri_example (incl. interface br-lan, fixed by
   fixes/C16-uri-scope-charset.patch), compared on every generated case, and still REFUTED for
   link-local servers whose interface name has characters that are not valid in a URI authority,
   such as the alias interface "eth0:1" (C16_csv_fixpoint_refuted). *)
Theorem C16_csv_fixpoint_partial : forall nf ifs flags cudp ctcp l txt,
  Forall (server_ok nf ifs) l ->
  ForallOrdPairs (fun a b => sconf_match cudp ctcp (entry_of b) (entry_of a) = false) l ->
  (Z.testbit flags 1 = true -> (List.length l <= 1)%nat) ->
  get_servers_csv nf l = Ok txt ->
  set_servers_csv nf ifs flags cudp ctcp [] txt = Ok l /\
  (forall l', set_servers_csv nf ifs flags cudp ctcp [] txt = Ok l' -> get_servers_csv nf l' = Ok txt).
Proof. exact csv_fixpoint_plain_pairwise. Qed.
Print Assumptions C16_csv_fixpoint_partial.

Theorem C16_csv_fixpoint_inhabited :
  exists txt, get_servers_csv inet_fns ex_servers = Ok txt /\
              set_servers_csv inet_fns (Some vif) 0 0 0 [] txt = Ok ex_servers.
Proof. exact csv_fixpoint_example. Qed.
Print Assumptions C16_csv_fixpoint_inhabited.

Theorem C16_csv_uri_example :
  (get_servers_csv nf [srv_eth0] = Ok (B "dns://[fe80::2%eth0]:5353?tcpport=53") /\
   set_servers_csv nf (Some vif) 0 0 0 [] (B "dns://[fe80::2%eth0]:5353?tcpport=53") = Ok [srv_eth0]) /\
  (set_servers_csv nf (Some vif) 0 5353 0 [] (B "fe80::2%br-lan") = Ok [srv_brlan] /\
   get_servers_csv nf [srv_brlan] = Ok (B "dns://[fe80::2%br-lan]:5353?tcpport=53") /\
   set_servers_csv nf (Some vif) 0 0 0 [] (B "dns://[fe80::2%br-lan]:5353?tcpport=53") = Ok [srv_brlan]).
Proof. exact (conj witness_uri_roundtrip fixed_brlan_roundtrip). Qed.
Print Assumptions C16_csv_uri_example.

Theorem C16_csv_fixpoint_refuted : get_servers_csv nf [srv_alias] = Err ARES_EBADNAME.
Proof. exact witness_csv_unrenderable. Qed.
Print Assumptions C16_csv_fixpoint_refuted.

(* C16_dup.  Full statement: dup c agrees with c on every covered field, on the local device /
   addresses / socket functions, and on the ordered server list.  Proved for chan_wf channels
   whose servers use the plain text form (one port for UDP and TCP, premise addr_good per
   address), are pairwise different, and respect ARES_FLAG_PRIMARY.  Missing: servers with
   differing ports (dns:// form).  Refuted instance: C16_csv_fixpoint_refuted (interface name
   the URI form cannot carry). *)
Theorem C16_dup_partial : forall nf g e src d,
  chan_wf src -> (has (c_optmask src) B_DOMAINS = true -> c_domains src <> []) ->
  Forall (server_ok nf (c_ifs src)) (c_servers src) ->
  (forall cu ct, distinct cu ct (c_servers src)) ->
  (Z.testbit (c_flags src) 1 = true -> (List.length (c_servers src) <= 1)%nat) ->
  dup nf g e src = Ok d ->
  covered_same src d /\
  c_ldev d = c_ldev src /\ c_lip4 d = c_lip4 src /\ c_lip6 d = c_lip6 src /\ c_ifs d = c_ifs src /\
  (has (c_optmask src) B_SERVERS = true -> c_servers d = c_servers src).
Proof. exact dup_effective. Qed.
Print Assumptions C16_dup_partial.
