(* C04 - decoded records say what the wire bytes say (agreement with an RFC reference decoder).
   Statements only; proofs are in Wire/*_proofs.v.

   FULL STATEMENTS (kept visible; see docs/C04.md for what is proved and what is carried by the
   differential run of the implementation against the extracted RefDecode.ref_decode):
     C04_sound    : forall bs r rf, dns_parse bs 0 = Ok r -> ref_decode bs = Some rf ->
                                    fields_agree r (rf_rec rf)
     C04_complete : forall bs, ref_strict bs = true -> exists r, dns_parse bs 0 = Ok r
   BOTH are proved below for ALL inputs (model of the tree with the C04 fixes applied, which is what
   /repo now contains; octets are < 256).  They are additionally decided on every run by the oracle
   (FAIL ref-mismatch / ref-accepts) on the real library. *)
From CAres.Wire Require Import Cursor Name Record Parse Escape Escape_proofs RefDecode RefDecode_proofs Name_ref Parse_ref Parse_ref5 Parse_cmp3.
From CAres.Gen Require Import Consts.
Local Open Scope Z_scope.

(* NAMES, both directions, all inputs: on any block of octets, at any offset, the model of
   ares_dns_name_parse accepts exactly the names the RFC 1035 4.1.4 reference walk accepts, returns
   exactly their labels (as escaped text) and leaves the cursor exactly behind the name (after the
   first pointer, or after the terminating zero octet) - the name part of C04_sound and C04_complete *)
Theorem C04_name_agreement : forall fuel c,
  cur_ok c -> exact c -> bytes_ok (c_data c) -> (name_fuel c <= fuel)%nat ->
  match ref_name (c_data c) (Z.to_nat (c_off c)) with
  | Some (labels, e) => dns_name_parse fuel c true false = Ok (escape_name labels, set_off c (Z.of_nat e))
                        /\ Forall nonempty labels
  | None => exists s, dns_name_parse fuel c true false = Err s
  end.
Proof. exact name_parse_ref. Qed.
Print Assumptions C04_name_agreement.

(* C04_sound, ALL inputs, every field: whenever ares_dns_parse() (flags 0) accepts a message and the
   RFC reference decoder can follow it, the record returned says exactly what the reference decoder
   extracts from the same octets - id, flag bits, opcode, the 12-bit RCODE assembled from the header
   nibble and the OPT RR (reported as SERVFAIL when the library has no enumerator for it), the
   question, and for every RR of the three sections its owner name, type, class, TTL and every RDATA
   field of every supported type (A NS CNAME SOA PTR HINFO MX TXT SIG AAAA SRV NAPTR OPT TLSA SVCB
   HTTPS URI CAA) and, for any other type, the opaque RDATA with the type number; compressed names
   are followed to what RFC 1035 4.1.4 says they mean.  [fields_agree] compares modulo NULL = empty
   and STR = NAME text (RefDecode.norm_fval).  The only messages the reference decoder does not
   follow although the parser accepts them carry more than one OPT RR. *)
Theorem C04_sound : forall bs r rf,
  bytes_ok bs ->
  dns_parse bs 0 = Ok r -> ref_decode bs = Some rf -> fields_agree r (rf_rec rf).
Proof. exact sound_fixed. Qed.
Print Assumptions C04_sound.

(* C04_complete, ALL inputs: every message the RFC reference decoder finds well formed within the
   supported subset is accepted by ares_dns_parse() (flags 0).  [ref_strict] (RefDecode.v): the
   lenient decoder can follow the message and every RDATA is consumed exactly; one question; opcode,
   question class and RR classes ones the library knows (OPT exempt); no RR of the QTYPE-only type
   255; the <character-string>s of HINFO / NAPTR / CAA and the URI target printable ASCII.  Any
   type, any compression layout RFC 1035 4.1.4 allows, any option codes (repeated ones too), names
   of any length, any RCODE.  With C04_sound: on the supported subset the parser returns exactly
   the record the reference decoder describes. *)
Theorem C04_complete : forall bs,
  bytes_ok bs -> ref_strict bs = true -> exists r, dns_parse bs 0 = Ok r.
Proof. exact complete_fixed. Qed.
Print Assumptions C04_complete.

(* C04_sound restricted to HEADER AND QUESTION, for all inputs (both tree variants): whenever the
   parser accepts a message and the reference decoder can follow it, the id, the flag bits, the
   opcode and the question (decompressed name, type, class) the parser reports are exactly what
   the reference decoder extracts.
   _partial: RR sections and the RCODE (assembled from OPT) are not covered by this theorem (for the
   fixed tree they are covered by C04_sound; for the pinned tree they are refuted below) *)
Theorem C04_sound_header_question_partial : forall variant bs r rf,
  bytes_ok bs -> Z.of_nat (length bs) < 2 ^ 64 ->
  dns_parse_v variant bs 0 = Ok r -> ref_decode bs = Some rf ->
  d_id r = d_id (rf_rec rf) /\ d_flags r = d_flags (rf_rec rf) /\ d_opcode r = d_opcode (rf_rec rf) /\
  d_qd r = d_qd (rf_rec rf).
Proof. exact sound_header_question. Qed.
Print Assumptions C04_sound_header_question_partial.

(* presentation-format names round-trip through escaping without changing the label octets:
   for all label lists (non-empty labels of octets), whatever octets they contain *)
Theorem C04_escape_roundtrip : forall labels,
  Forall octets_ok labels -> Forall (fun l => l <> []) labels ->
  unescape (escape_name labels) = Some labels.
Proof. exact escape_roundtrip. Qed.
Print Assumptions C04_escape_roundtrip.

(* the pinned tree violates C04_sound: an RR of an undecoded type with empty RDATA is reported
   with type 0 (fixes/C04-raw-rr-empty-rdata.patch) *)
Theorem C04_sound_refuted_raw_empty_rdata :
  exists bs r rf, dns_parse_pinned bs 0 = Ok r /\ ref_decode bs = Some rf /\ ~ fields_agree r (rf_rec rf).
Proof. exact sound_refuted_raw_empty_pinned. Qed.
Print Assumptions C04_sound_refuted_raw_empty_rdata.

(* the pinned tree violates C04_sound: options repeating an option code collapse
   (fixes/C04-opt-duplicate-options.patch) *)
Theorem C04_sound_refuted_duplicate_options :
  exists bs r rf, dns_parse_pinned bs 0 = Ok r /\ ref_decode bs = Some rf /\ ~ fields_agree r (rf_rec rf).
Proof. exact sound_refuted_opt_duplicate_pinned. Qed.
Print Assumptions C04_sound_refuted_duplicate_options.
