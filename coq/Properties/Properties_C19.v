(* C19 - containers behave as their abstract data types.  Statements only; proofs are in Dsa/*_proofs.v *)
From CAres.Dsa Require Import Array Array_proofs.
From CAres.Gen Require Import Consts.

Theorem C19_array_at_refines : forall a idx, arr_at a idx = nth_error (arr_abs a) idx.
Proof. exact arr_at_refines. Qed.
Print Assumptions C19_array_at_refines.

(* ---- the byte buffer (src/lib/str/ares_buf.c): coq/Dsa/Buf.v, Buf_proofs.v ---- *)
From CAres.Dsa Require Import Buf Buf_proofs.

Theorem C19_buf_append_refines : forall junk ok b bytes,
  buf_inv b -> (buf_zlen bytes < BUF_ALLOC_LIMIT)%Z ->
  exists st b', buf_append junk ok b bytes = Ok (st, b') /\ buf_inv b' /\
    In (st, buf_abs b') (spec_append_alts (buf_abs b) bytes) /\
    ((forall i, (0 <= junk i < 256)%Z) -> buf_bytes_ok (b_mem b) -> buf_bytes_ok bytes -> buf_bytes_ok (b_mem b')) /\
    (st = ARES_ENOMEM -> ok = false \/ (BUF_ALLOC_LIMIT <= 2 * b_alloc b)%Z \/
                         (BUF_ALLOC_LIMIT <= 2 * (b_dlen b + buf_zlen bytes + 1))%Z).
Proof. exact buf_append_refines. Qed.
Print Assumptions C19_buf_append_refines.

Theorem C19_buf_fetch_bytes_refines : forall b n, buf_inv b -> (0 <= n)%Z ->
  exists st b' out, buf_fetch_bytes b n = Ok (st, b', out) /\ buf_inv b' /\
                    (st, buf_abs b', out) = spec_fetch_bytes (buf_abs b) n.
Proof. exact buf_fetch_bytes_refines. Qed.
Print Assumptions C19_buf_fetch_bytes_refines.

Theorem C19_buf_tag_rollback_refines : forall b, buf_inv b ->
  exists st b', buf_tag_rollback b = Ok (st, b') /\ buf_inv b' /\
                (st, buf_abs b') = spec_tag_rollback (buf_abs b).
Proof. exact buf_tag_rollback_refines. Qed.
Print Assumptions C19_buf_tag_rollback_refines.

Theorem C19_buf_reclaim_refines : forall b, buf_inv b ->
  exists b', buf_reclaim b = Ok b' /\ buf_inv b' /\ buf_abs b' = spec_trim (buf_abs b) /\
             b_alloc b' = b_alloc b /\ (b_dlen b' <= b_dlen b)%Z /\
             b_hasdata b' = b_hasdata b /\ b_hasabuf b' = b_hasabuf b /\
             (buf_bytes_ok (b_mem b) -> buf_bytes_ok (b_mem b')).
Proof. exact buf_reclaim_refines. Qed.
Print Assumptions C19_buf_reclaim_refines.
