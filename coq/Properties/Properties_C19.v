(* C19 - containers behave as their abstract data types.  Statements only; proofs are in Dsa/*_proofs.v *)
From CAres.Dsa Require Import Array Array_proofs.
From CAres.Gen Require Import Consts.

Theorem C19_array_at_refines : forall a idx, arr_at a idx = nth_error (arr_abs a) idx.
Proof. exact arr_at_refines. Qed.
Print Assumptions C19_array_at_refines.

(* ---- hash table (ares_htable.c + typed wrappers): coq/Dsa/Htable.v, Htable_proofs.v ---- *)
From CAres.Dsa Require Import Htable Htable_proofs.

(* MAIN: every operation sequence from ares_htable_create, ANY hash function compatible with
   the key equality, any seed, any allocator behaviour: the model is never UB, never takes the
   "impossible" pool-exhausted branch of ares_htable_expand, and its observable results
   (insert/remove return values and freed entries, get results, counts, iteration and the
   entries freed by destroy as multisets) are those of the association-list specification;
   an insert reports failure only if the allocator refused a request during the call, and
   then the map is unchanged. *)
Theorem C19_ht_run_refines :
  forall (K V : Type) (keq : K -> K -> bool) (hash : K -> Z -> Z),
    (forall a : K, keq a a = true) ->
    (forall a b : K, keq a b = keq b a) ->
    (forall a b c : K, keq a b = true -> keq b c = true -> keq a c = true) ->
    (forall (a b : K) (s : Z), keq a b = true -> hash a s = hash b s) ->
    forall (vnull : V) (seed : Z) (ops : list (@ht_op K V)),
    exists tr : list (@ht_obs K V),
      ht_run_model keq hash vnull seed ops = Ok tr /\
      Forall2 ht_obs_eq tr (ht_run_spec keq vnull ops (map (@ht_obs_ok K V) tr)) /\
      ht_justified ops tr.
Proof. exact @ht_run_refines. Qed.
Print Assumptions C19_ht_run_refines.

(* when the allocator never refuses, the results are a function of the operations alone *)
Theorem C19_ht_run_refines_nofail :
  forall (K V : Type) (keq : K -> K -> bool) (hash : K -> Z -> Z),
    (forall a : K, keq a a = true) ->
    (forall a b : K, keq a b = keq b a) ->
    (forall a b c : K, keq a b = true -> keq b c = true -> keq a c = true) ->
    (forall (a b : K) (s : Z), keq a b = true -> hash a s = hash b s) ->
    forall (vnull : V) (seed : Z) (ops : list (@ht_op K V)),
    Forall (fun op => ~ ht_op_can_fail op) ops ->
    exists tr : list (@ht_obs K V),
      ht_run_model keq hash vnull seed ops = Ok tr /\
      Forall2 ht_obs_eq tr (ht_run_spec keq vnull ops []).
Proof. exact @ht_run_refines_nofail. Qed.
Print Assumptions C19_ht_run_refines_nofail.

(* ... hence independent of the hash function and of the seed *)
Theorem C19_ht_run_hash_independent :
  forall (K V : Type) (keq : K -> K -> bool) (hash1 hash2 : K -> Z -> Z)
         (vnull : V) (seed1 seed2 : Z) (ops : list (@ht_op K V)),
    (forall a, keq a a = true) -> (forall a b, keq a b = keq b a) ->
    (forall a b c, keq a b = true -> keq b c = true -> keq a c = true) ->
    (forall a b s, keq a b = true -> hash1 a s = hash1 b s) ->
    (forall a b s, keq a b = true -> hash2 a s = hash2 b s) ->
    Forall (fun op => ~ ht_op_can_fail op) ops ->
    exists tr1 tr2,
      ht_run_model keq hash1 vnull seed1 ops = Ok tr1 /\
      ht_run_model keq hash2 vnull seed2 ops = Ok tr2 /\
      Forall2 ht_obs_eq tr1 tr2.
Proof. exact @ht_run_hash_independent. Qed.
Print Assumptions C19_ht_run_hash_independent.

(* the invariant (size a power of two in [2^4, 2^24], every entry in bucket HASH_IDX of its
   key, no key twice, num_keys = number of entries, num_collisions = sum of (len - 1)) is
   preserved by every operation sequence, growth included *)
Theorem C19_ht_invariant_preserved :
  forall (K V : Type) (keq : K -> K -> bool) (hash : K -> Z -> Z),
    (forall a : K, keq a a = true) ->
    (forall a b : K, keq a b = keq b a) ->
    (forall a b c : K, keq a b = true -> keq b c = true -> keq a c = true) ->
    (forall (a b : K) (s : Z), keq a b = true -> hash a s = hash b s) ->
    forall (vnull : V) (ops : list (@ht_op K V)) (h h' : @ht K V),
    ht_inv keq hash h ->
    ht_exec keq hash vnull h ops = Ok h' ->
    (exists n, 4 <= n <= 24 /\ ht_size h' = 2 ^ n) /\
    length (ht_buckets h') = ht_size h' /\
    (forall i b e, nth_error (ht_buckets h') i = Some b -> In e (ht_nodes b) ->
                   ht_idx hash (ht_size h') (ht_seed h') (fst e) = i) /\
    ht_nodup keq (ht_entries_of (ht_buckets h')) /\
    ht_num_keys h' = length (ht_entries_of (ht_buckets h')) /\
    ht_num_collisions h' = list_sum (map (fun b => length (ht_nodes b) - 1) (ht_buckets h')).
Proof. exact @ht_exec_inv. Qed.
Print Assumptions C19_ht_invariant_preserved.

(* get after a successful insert returns the latest value (also when the insert grew the
   table); other keys are unaffected *)
Theorem C19_ht_latest_value :
  forall (K V : Type) (keq : K -> K -> bool) (hash : K -> Z -> Z),
    (forall a b : K, keq a b = keq b a) ->
    (forall a b c : K, keq a b = true -> keq b c = true -> keq a c = true) ->
    (forall (a b : K) (s : Z), keq a b = true -> hash a s = hash b s) ->
    forall (o : list bool) (h : @ht K V) (k : K) (v : V) (h' : @ht K V) (r : ht_ins_result) (k' : K),
    ht_inv keq hash h ->
    ht_insert keq hash o h (k, v) = Ok (h', r) ->
    r <> HtFailed ->
    ht_get keq hash h' k' = (if keq k' k then Ok (Some (k, v)) else ht_get keq hash h k').
Proof. exact @ht_get_after_insert. Qed.
Print Assumptions C19_ht_latest_value.

(* insert of an existing key keeps the count, a new key adds one *)
Theorem C19_ht_count_after_insert :
  forall (K V : Type) (keq : K -> K -> bool) (hash : K -> Z -> Z),
    (forall a b : K, keq a b = keq b a) ->
    (forall a b c : K, keq a b = true -> keq b c = true -> keq a c = true) ->
    (forall (a b : K) (s : Z), keq a b = true -> hash a s = hash b s) ->
    forall (o : list bool) (h : @ht K V) (e : ht_entry) (h' : @ht K V) (r : ht_ins_result),
    ht_inv keq hash h ->
    ht_insert keq hash o h e = Ok (h', r) ->
    r <> HtFailed ->
    ht_num_keys h' = match hts_get keq (fst e) (ht_entries h) with
                     | Some _ => ht_num_keys h
                     | None => S (ht_num_keys h)
                     end.
Proof. exact @ht_num_keys_after_insert. Qed.
Print Assumptions C19_ht_count_after_insert.

(* remove reports (and frees) the binding that was present; afterwards the key is absent,
   other keys are unaffected, the count drops by one iff something was removed *)
Theorem C19_ht_remove :
  forall (K V : Type) (keq : K -> K -> bool) (hash : K -> Z -> Z),
    (forall a b : K, keq a b = keq b a) ->
    (forall a b c : K, keq a b = true -> keq b c = true -> keq a c = true) ->
    (forall (a b : K) (s : Z), keq a b = true -> hash a s = hash b s) ->
    forall (h : @ht K V) (k : K) (h' : @ht K V) (r : option ht_entry) (k' : K),
    ht_inv keq hash h ->
    ht_remove keq hash h k = Ok (h', r) ->
    ht_inv keq hash h' /\
    r = hts_get keq k (ht_entries h) /\
    ht_get keq hash h' k' = (if keq k' k then Ok None else ht_get keq hash h k') /\
    ht_num_keys h' = match r with Some _ => ht_num_keys h - 1 | None => ht_num_keys h end.
Proof. exact @ht_get_after_remove. Qed.
Print Assumptions C19_ht_remove.

(* ares_htable_all_buckets returns exactly the bindings: no key twice, num_keys many, and
   get of any key is the lookup in that list *)
Theorem C19_ht_iteration :
  forall (K V : Type) (keq : K -> K -> bool) (hash : K -> Z -> Z),
    (forall (a b : K) (s : Z), keq a b = true -> hash a s = hash b s) ->
    forall (h : @ht K V) (l : list ht_entry),
    ht_inv keq hash h ->
    ht_all_buckets true h = Ok (Some l) ->
    l = ht_entries h /\ ht_nodup keq l /\ length l = ht_num_keys h /\
    (forall k : K, ht_get keq hash h k = Ok (hts_get keq k l)).
Proof. exact @ht_all_buckets_bindings. Qed.
Print Assumptions C19_ht_iteration.

(* the pre-allocated list pool always suffices: under the invariant ares_htable_expand ends
   normally (never Err HT_POOL_EXHAUSTED, never UB) *)
Theorem C19_ht_expand_pool_suffices :
  forall (K V : Type) (keq : K -> K -> bool) (hash : K -> Z -> Z),
    (forall a b : K, keq a b = keq b a) ->
    forall (o : list bool) (h : @ht K V),
    ht_inv keq hash h ->
    exists (h' : @ht K V) (ok : bool) (o' : list bool), ht_expand hash o h = Ok (h', ok, o').
Proof. exact @ht_expand_pool_suffices. Qed.
Print Assumptions C19_ht_expand_pool_suffices.

(* the counting argument itself: a pool of at least sum (len - 1) lists is never exhausted *)
Theorem C19_ht_rehash_pool_suffices :
  forall (K V : Type) (hash : K -> Z -> Z) (n : nat) (seed : Z)
         (bs nb : list (@ht_bucket K V)) (pool coll : nat),
    ht_acc_ok hash (2 ^ n) seed nb coll ->
    ht_coll_of bs <= pool ->
    ht_rehash hash (2 ^ n) seed bs nb pool coll <> Err HT_POOL_EXHAUSTED.
Proof. exact @ht_rehash_pool_suffices. Qed.
Print Assumptions C19_ht_rehash_pool_suffices.

(* C14 atomicity: a refused request among those the growth makes leaves the table exactly as
   it was (any table, no invariant needed) ... *)
Theorem C19_ht_expand_alloc_fail_atomic :
  forall (K V : Type) (hash : K -> Z -> Z) (o : list bool) (h : @ht K V),
    In false (firstn (ht_expand_requests h) o) ->
    exists o' : list bool, ht_expand hash o h = Ok (h, false, o').
Proof. exact @ht_expand_alloc_fail_atomic. Qed.
Print Assumptions C19_ht_expand_alloc_fail_atomic.

(* ... and the insert that needed the growth returns ARES_FALSE without inserting *)
Theorem C19_ht_insert_growth_fail_atomic :
  forall (K V : Type) (keq : K -> K -> bool) (hash : K -> Z -> Z),
    (forall a b : K, keq a b = keq b a) ->
    (forall a b c : K, keq a b = true -> keq b c = true -> keq a c = true) ->
    (forall (a b : K) (s : Z), keq a b = true -> hash a s = hash b s) ->
    forall (o : list bool) (h : @ht K V) (e : K * V),
    ht_inv keq hash h ->
    hts_get keq (fst e) (ht_entries h) = None ->
    ht_should_expand h = true ->
    In false (firstn (ht_expand_requests h) o) ->
    ht_insert keq hash o h e = Ok (h, HtFailed).
Proof. exact @ht_insert_growth_fail_atomic. Qed.
Print Assumptions C19_ht_insert_growth_fail_atomic.

(* C14 atomicity: any failed insert leaves the map, every lookup and the count unchanged,
   keeps the invariant, and happens only when the allocator refused a request *)
Theorem C19_ht_insert_alloc_fail_atomic :
  forall (K V : Type) (keq : K -> K -> bool) (hash : K -> Z -> Z),
    (forall a b : K, keq a b = keq b a) ->
    (forall a b c : K, keq a b = true -> keq b c = true -> keq a c = true) ->
    (forall (a b : K) (s : Z), keq a b = true -> hash a s = hash b s) ->
    forall (o : list bool) (h : @ht K V) (e : ht_entry) (h' : @ht K V),
    ht_inv keq hash h ->
    ht_insert keq hash o h e = Ok (h', HtFailed) ->
    ht_inv keq hash h' /\
    Permutation (ht_entries h') (ht_entries h) /\
    In false o /\
    (forall k : K, ht_get keq hash h' k = ht_get keq hash h k) /\
    ht_num_keys h' = ht_num_keys h.
Proof. exact @ht_insert_alloc_fail_atomic. Qed.
Print Assumptions C19_ht_insert_alloc_fail_atomic.

(* typed wrappers: numeric keys compared with == (szvp, asvp, vpvp, vpstr): ANY hash function *)
Theorem C19_ht_szvp_run_refines :
  forall (hash : Z -> Z -> Z) (seed : Z) (ops : list (@ht_op Z Z)),
  exists tr, ht_run_model ht_szvp_keq hash 0%Z seed ops = Ok tr /\
    Forall2 ht_obs_eq tr (ht_run_spec ht_szvp_keq 0%Z ops (map (@ht_obs_ok Z Z) tr)) /\
    ht_justified ops tr.
Proof. exact ht_szvp_run_refines. Qed.
Print Assumptions C19_ht_szvp_run_refines.

(* case-insensitive string keys (strvp, dict): any hash function that ignores case ... *)
Theorem C19_ht_strvp_run_refines :
  forall (hash : list Z -> Z -> Z) (seed : Z) (ops : list (@ht_op (list Z) Z)),
  (forall a b s, ht_strcaseeq a b = true -> hash a s = hash b s) ->
  exists tr, ht_run_model ht_strcaseeq hash 0%Z seed ops = Ok tr /\
    Forall2 ht_obs_eq tr (ht_run_spec ht_strcaseeq 0%Z ops (map (@ht_obs_ok (list Z) Z) tr)) /\
    ht_justified ops tr.
Proof. exact ht_strvp_run_refines. Qed.
Print Assumptions C19_ht_strvp_run_refines.

(* ... in particular the library's ares_htable_hash_FNV1a_casecmp *)
Theorem C19_ht_strvp_run_refines_fnv :
  forall (seed : Z) (ops : list (@ht_op (list Z) Z)),
  exists tr, ht_run_model ht_strcaseeq ht_fnv1a_casecmp 0%Z seed ops = Ok tr /\
    Forall2 ht_obs_eq tr (ht_run_spec ht_strcaseeq 0%Z ops (map (@ht_obs_ok (list Z) Z) tr)) /\
    ht_justified ops tr.
Proof. exact ht_strvp_run_refines_fnv. Qed.
Print Assumptions C19_ht_strvp_run_refines_fnv.

(* the main statement with literal equality: return values, freed entries, get results,
   counts and SORTED iteration of the model run equal those of the specification run, for
   any total order [leb] on the entries used for sorting *)
Theorem C19_ht_run_refines_sorted :
  forall (K V : Type) (keq : K -> K -> bool) (hash : K -> Z -> Z)
         (leb : @ht_entry K V -> @ht_entry K V -> bool) (vnull : V) (seed : Z) (ops : list (@ht_op K V)),
    (forall a, keq a a = true) -> (forall a b, keq a b = keq b a) ->
    (forall a b c, keq a b = true -> keq b c = true -> keq a c = true) ->
    (forall a b s, keq a b = true -> hash a s = hash b s) ->
    (forall a b, leb a b = true \/ leb b a = true) ->
    (forall a b c, leb a b = true -> leb b c = true -> leb a c = true) ->
    (forall a b, leb a b = true -> leb b a = true -> a = b) ->
    Forall (fun op => ~ ht_op_can_fail op) ops ->
    exists tr, ht_run_model keq hash vnull seed ops = Ok tr /\
      map (ht_obs_canon (ht_sort leb)) tr =
      map (ht_obs_canon (ht_sort leb)) (ht_run_spec keq vnull ops []).
Proof. exact @ht_run_refines_sorted. Qed.
Print Assumptions C19_ht_run_refines_sorted.

(* instance: numeric keys and values sorted by key then value, ANY hash function *)
Theorem C19_ht_szvp_run_refines_sorted :
  forall (hash : Z -> Z -> Z) (seed : Z) (ops : list (@ht_op Z Z)),
    Forall (fun op => ~ ht_op_can_fail op) ops ->
    exists tr, ht_run_model ht_szvp_keq hash 0%Z seed ops = Ok tr /\
      map (ht_obs_canon (ht_sort ht_zz_leb)) tr =
      map (ht_obs_canon (ht_sort ht_zz_leb)) (ht_run_spec ht_szvp_keq 0%Z ops []).
Proof. exact ht_szvp_run_refines_sorted. Qed.
Print Assumptions C19_ht_szvp_run_refines_sorted.
