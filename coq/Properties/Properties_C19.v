(* C19 - containers behave as their abstract data types.  Statements only; proofs are in Dsa/*_proofs.v *)
From CAres.Dsa Require Import Array Array_proofs.
From CAres.Gen Require Import Consts.

Theorem C19_array_at_refines : forall a idx, arr_at a idx = nth_error (arr_abs a) idx.
Proof. exact arr_at_refines. Qed.
Print Assumptions C19_array_at_refines.

(* ---- the byte buffer (src/lib/str/ares_buf.c): coq/Dsa/Buf.v, Buf_proofs.v, Buf_split_props.v ---- *)
From CAres.Dsa Require Import Buf Buf_proofs Buf_split_props.
Local Open Scope Z_scope.

(* MAIN: for every operation sequence on a freshly created buffer (operations = the calls of
   the C API, with their allocation oracles), the model run - stopped at the first call outside
   the caller contract - never is UB, never runs out of fuel, and every observation (status,
   outputs, ares_buf_len, position, tag length, all remaining bytes) is one the byte-queue
   specification allows. *)
Theorem C19_buf_bytes : forall junk ops,
  (forall i, 0 <= junk i < 256) -> Forall buf_op_ok ops ->
  exists tr, buf_run_checked junk buf_empty ops = Ok tr /\ bufs_accepts [bufs_create] ops tr = true.
Proof. exact buf_run_refines. Qed.
Print Assumptions C19_buf_bytes.

(* one step: invariant preserved, never UB, result among the alternatives of the specification *)
Theorem C19_buf_step_refines : forall junk b op, (forall i, 0 <= junk i < 256) ->
  buf_inv b -> buf_bytes_ok (cb_mem b) -> buf_op_ok op -> bufs_contract (buf_abs b) op = true ->
  exists o b', buf_step junk b op = Ok (o, b') /\ buf_inv b' /\ buf_bytes_ok (cb_mem b') /\
               In (o, buf_abs b') (bufs_alts (buf_abs b) op).
Proof. exact buf_step_refines. Qed.
Print Assumptions C19_buf_step_refines.

Theorem C19_buf_observe_refines : forall b, buf_inv b -> buf_observe b = Ok (bufs_view (buf_abs b)).
Proof. exact buf_observe_refines. Qed.
Print Assumptions C19_buf_observe_refines.

(* append: exactly the bytes at the back, or ENOMEM (only when the allocator refuses) with the
   abstract value unchanged *)
Theorem C19_buf_append_refines : forall junk ok b bytes,
  buf_inv b -> buf_zlen bytes < BUF_ALLOC_LIMIT ->
  exists st b', buf_append junk ok b bytes = Ok (st, b') /\ buf_inv b' /\
    In (st, buf_abs b') (bufs_append_alts (buf_abs b) bytes) /\
    ((forall i, 0 <= junk i < 256) -> buf_bytes_ok (cb_mem b) -> buf_bytes_ok bytes -> buf_bytes_ok (cb_mem b')) /\
    (st = ARES_ENOMEM -> ok = false \/ BUF_ALLOC_LIMIT <= 2 * (cb_dlen b + buf_zlen bytes + 1)).
Proof. exact buf_append_refines. Qed.
Print Assumptions C19_buf_append_refines.

Theorem C19_buf_append_total : forall junk b bytes,
  buf_inv b -> buf_not_const b -> cb_dlen b + buf_zlen bytes + 1 < 2 ^ 60 ->
  exists b', buf_append junk true b bytes = Ok (ARES_SUCCESS, b') /\
             buf_remaining b' = buf_remaining b ++ bytes.
Proof. exact buf_append_total. Qed.
Print Assumptions C19_buf_append_total.

(* C14, container level *)
Theorem C19_buf_append_alloc_fail_atomic : forall junk ok b bytes st b',
  buf_inv b -> buf_zlen bytes < BUF_ALLOC_LIMIT ->
  buf_append junk ok b bytes = Ok (st, b') -> st = ARES_ENOMEM ->
  buf_inv b' /\ buf_remaining b' = buf_remaining b /\ bufs_tagged (buf_abs b') = bufs_tagged (buf_abs b).
Proof. exact buf_append_alloc_fail_atomic. Qed.
Print Assumptions C19_buf_append_alloc_fail_atomic.

Theorem C19_buf_ensure_space_alloc_fail_atomic : forall junk ok b n st b',
  buf_inv b -> 0 <= n < BUF_ALLOC_LIMIT ->
  buf_ensure_space junk ok b n = Ok (st, b') -> st = ARES_ENOMEM ->
  buf_inv b' /\ buf_remaining b' = buf_remaining b /\ bufs_tagged (buf_abs b') = bufs_tagged (buf_abs b).
Proof. exact buf_ensure_space_alloc_fail_atomic. Qed.
Print Assumptions C19_buf_ensure_space_alloc_fail_atomic.

Theorem C19_buf_append_be16_alloc_fail_atomic : forall junk ok b v st b',
  buf_inv b -> buf_append_be16 junk ok b v = Ok (st, b') -> st = ARES_ENOMEM ->
  buf_inv b' /\ buf_remaining b' = buf_remaining b /\ bufs_tagged (buf_abs b') = bufs_tagged (buf_abs b).
Proof. exact buf_append_be16_alloc_fail_atomic. Qed.
Print Assumptions C19_buf_append_be16_alloc_fail_atomic.

(* the code before fixes/C19-buf-append-be-atomic.patch was NOT atomic (refutation witness) *)
Theorem C19_buf_append_be16_unfixed_refuted :
  exists b b', buf_inv b /\
    buf_append_be16_unfixed (fun _ => 0) true false b 4660 = Ok (ARES_ENOMEM, b') /\
    buf_remaining b' = buf_remaining b ++ [18] /\ buf_remaining b' <> buf_remaining b.
Proof. exact buf_append_be16_unfixed_not_atomic. Qed.
Print Assumptions C19_buf_append_be16_unfixed_refuted.

(* fetches *)
Theorem C19_buf_fetch_bytes_refines : forall b n, buf_inv b -> 0 <= n ->
  exists st b' out, buf_fetch_bytes b n = Ok (st, b', out) /\ buf_inv b' /\
                    (st, buf_abs b', out) = bufs_fetch_bytes (buf_abs b) n.
Proof. exact buf_fetch_bytes_refines. Qed.
Print Assumptions C19_buf_fetch_bytes_refines.

Theorem C19_buf_fetch_be16_refines : forall b, buf_inv b -> buf_bytes_ok (buf_remaining b) ->
  exists st b' v, buf_fetch_be16 b = Ok (st, b', v) /\ buf_inv b' /\
                  (st, buf_abs b', v) = bufs_fetch_be 2 (buf_abs b).
Proof. exact buf_fetch_be16_refines. Qed.
Print Assumptions C19_buf_fetch_be16_refines.

Theorem C19_buf_fetch_be32_refines : forall b, buf_inv b -> buf_bytes_ok (buf_remaining b) ->
  exists st b' v, buf_fetch_be32 b = Ok (st, b', v) /\ buf_inv b' /\
                  (st, buf_abs b', v) = bufs_fetch_be 4 (buf_abs b).
Proof. exact buf_fetch_be32_refines. Qed.
Print Assumptions C19_buf_fetch_be32_refines.

Theorem C19_buf_be_roundtrip : forall k v, 0 <= v ->
  bufs_be_value 0 (bufs_be_bytes k v) = v mod 256 ^ Z.of_nat k.
Proof. exact bufs_be_roundtrip. Qed.
Print Assumptions C19_buf_be_roundtrip.

Theorem C19_buf_fetch_bytes_boundary : forall s, 0 < bufs_len s ->
  bufs_fetch_bytes s (bufs_len s) = (ARES_SUCCESS, mkBufSpec (bs_pre s ++ bs_post s) [] (bs_tag s) (bs_const s), bs_post s) /\
  bufs_fetch_bytes s (bufs_len s + 1) = (ARES_EBADRESP, s, []).
Proof. exact bufs_fetch_bytes_boundary. Qed.
Print Assumptions C19_buf_fetch_bytes_boundary.

Theorem C19_buf_consume_refines : forall b n, buf_inv b -> 0 <= n ->
  exists st b', buf_consume b n = Ok (st, b') /\ buf_inv b' /\
                (st, buf_abs b') = bufs_consume (buf_abs b) n.
Proof. exact buf_consume_refines. Qed.
Print Assumptions C19_buf_consume_refines.

(* tag / rollback / reclaim *)
Theorem C19_buf_tag_rollback_refines : forall b, buf_inv b ->
  exists st b', buf_tag_rollback b = Ok (st, b') /\ buf_inv b' /\
                (st, buf_abs b') = bufs_tag_rollback (buf_abs b).
Proof. exact buf_tag_rollback_refines. Qed.
Print Assumptions C19_buf_tag_rollback_refines.

Theorem C19_buf_tag_advance_rollback : forall s n1 n2,
  0 <= n1 -> 0 <= n2 -> n1 + n2 <= bufs_len s ->
  snd (bufs_tag_rollback (bufs_advance (bufs_advance (bufs_tag s) n1) n2)) =
  mkBufSpec (bs_pre s) (bs_post s) None (bs_const s).
Proof. exact bufs_tag_advance_rollback. Qed.
Print Assumptions C19_buf_tag_advance_rollback.

Theorem C19_buf_tag_length_refines : forall b, buf_inv b -> buf_tag_length b = Ok (bufs_tag_length (buf_abs b)).
Proof. exact buf_tag_length_refines. Qed.
Print Assumptions C19_buf_tag_length_refines.

Theorem C19_buf_tag_fetch_bytes_refines : forall b cap, buf_inv b -> 0 <= cap ->
  exists r, buf_tag_fetch_bytes b cap = Ok r /\ In r (bufs_tag_fetch_bytes_alts (buf_abs b) cap).
Proof. exact buf_tag_fetch_bytes_refines. Qed.
Print Assumptions C19_buf_tag_fetch_bytes_refines.

Theorem C19_buf_reclaim_refines : forall b, buf_inv b ->
  exists b', buf_reclaim b = Ok b' /\ buf_inv b' /\ buf_abs b' = bufs_trim (buf_abs b) /\
             cb_alloc b' = cb_alloc b /\ cb_dlen b' <= cb_dlen b /\
             cb_hasdata b' = cb_hasdata b /\ cb_hasabuf b' = cb_hasabuf b /\
             (buf_bytes_ok (cb_mem b) -> buf_bytes_ok (cb_mem b')).
Proof. exact buf_reclaim_refines. Qed.
Print Assumptions C19_buf_reclaim_refines.

Theorem C19_buf_rollback_after_reclaim : forall s t, bs_tag s = Some t -> 0 <= t ->
  bs_post (snd (bufs_tag_rollback (bufs_trim s))) = bs_post (snd (bufs_tag_rollback s)) /\
  bufs_tagged (bufs_trim s) = bufs_tagged s /\ bs_post (bufs_trim s) = bs_post s.
Proof. exact bufs_rollback_after_trim. Qed.
Print Assumptions C19_buf_rollback_after_reclaim.

(* positions and lengths *)
Theorem C19_buf_set_position_refines : forall b idx, buf_inv b -> 0 <= idx ->
  bufs_set_position_contract (buf_abs b) idx = true ->
  exists st b', buf_set_position b idx = Ok (st, b') /\ buf_inv b' /\
                (st, buf_abs b') = bufs_set_position (buf_abs b) idx.
Proof. exact buf_set_position_refines. Qed.
Print Assumptions C19_buf_set_position_refines.

Theorem C19_buf_set_position_below_tag : forall b idx, buf_inv b -> cb_hasdata b = true ->
  cb_tag b <> BUF_SIZE_MAX -> 0 <= idx < cb_tag b ->
  exists b', buf_set_position b idx = Ok (ARES_SUCCESS, b') /\
    cb_off b' = idx /\ cb_tag b' = cb_tag b /\ ~ buf_inv b' /\
    buf_tag_length b' = Ok (2 ^ 64 - (cb_tag b - idx)) /\
    (forall cap, buf_tag_fetch_bytes b' cap =
                 if cap <? 2 ^ 64 - (cb_tag b - idx) then Ok (ARES_EFORMERR, []) else UB OutOfBounds).
Proof. exact buf_set_position_below_tag. Qed.
Print Assumptions C19_buf_set_position_below_tag.

Theorem C19_buf_set_length_refines : forall b len fill, buf_inv b -> 0 <= len ->
  exists st b', buf_set_length_fill b len fill = Ok (st, b') /\ buf_inv b' /\
    In (st, buf_abs b') (bufs_set_length_alts (buf_abs b) len fill) /\
    (0 <= fill < 256 -> buf_bytes_ok (cb_mem b) -> buf_bytes_ok (cb_mem b')) /\
    (st = ARES_SUCCESS <-> (bs_const (buf_abs b) = false /\ len < cb_alloc b - cb_off b)).
Proof. exact buf_set_length_fill_refines. Qed.
Print Assumptions C19_buf_set_length_refines.

(* finish *)
Theorem C19_buf_finish_bin_exact : forall junk ok b, buf_inv b -> bs_const (buf_abs b) = false ->
  exists r b', buf_finish_bin junk ok b = Ok (r, b') /\
    match r with
    | Some bytes => bytes = bufs_tagged (buf_abs b) ++ buf_remaining b
    | None => buf_remaining b = [] /\ ok = false \/ buf_remaining b = []
    end.
Proof. exact buf_finish_bin_exact. Qed.
Print Assumptions C19_buf_finish_bin_exact.

(* split *)
Theorem C19_buf_split_refines : forall ok_arr b delims flags max_sections,
  buf_inv b -> 0 <= flags -> 0 <= max_sections ->
  exists st b' pieces, buf_split ok_arr (fun _ => true) b delims flags max_sections = Ok (st, b', pieces) /\
    buf_inv b' /\ cb_mem b' = cb_mem b /\
    In (mkBufObs st [buf_zlen pieces] pieces, buf_abs b') (bufs_split_alts ok_arr (buf_abs b) delims flags max_sections).
Proof. exact buf_split_refines. Qed.
Print Assumptions C19_buf_split_refines.

Theorem C19_buf_split_fields : forall delims flags,
  buf_flag flags ARES_BUF_SPLIT_KEEP_DELIMS = false -> forall l,
  fst (bufs_split delims flags 0 l) =
  fold_left (fun a f => bufs_split_emit flags a (rev f)) (buf_fields (buf_in_charset delims) l) [].
Proof. exact bufs_split_fields. Qed.
Print Assumptions C19_buf_split_fields.

Theorem C19_buf_split_noflags : forall delims l,
  fst (bufs_split delims ARES_BUF_SPLIT_NONE 0 l) = filter buf_nonempty (buf_fields (buf_in_charset delims) l).
Proof. exact bufs_split_noflags. Qed.
Print Assumptions C19_buf_split_noflags.

Theorem C19_buf_split_partition : forall delims l,
  exists ds, Forall (fun d => buf_in_charset delims d = true) ds /\
             length (fst (bufs_split delims ARES_BUF_SPLIT_ALLOW_BLANK 0 l)) = S (length ds) /\
             buf_interleave (fst (bufs_split delims ARES_BUF_SPLIT_ALLOW_BLANK 0 l)) ds = l /\
             Forall (Forall (fun c => buf_in_charset delims c = false)) (fst (bufs_split delims ARES_BUF_SPLIT_ALLOW_BLANK 0 l)).
Proof. exact bufs_split_partition. Qed.
Print Assumptions C19_buf_split_partition.

Theorem C19_buf_split_trim : forall delims l,
  fst (bufs_split delims ARES_BUF_SPLIT_TRIM 0 l) =
  filter buf_nonempty (map buf_trim (buf_fields (buf_in_charset delims) l)).
Proof. exact bufs_split_trim. Qed.
Print Assumptions C19_buf_split_trim.

Theorem C19_buf_split_no_duplicates : forall delims flags max_sections l,
  buf_flag flags ARES_BUF_SPLIT_NO_DUPLICATES = true ->
  buf_nodup_by (buf_piece_eqb flags) (fst (bufs_split delims flags max_sections l)).
Proof. exact bufs_split_no_duplicates. Qed.
Print Assumptions C19_buf_split_no_duplicates.
Local Close Scope Z_scope.
