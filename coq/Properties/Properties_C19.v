(* C19 - containers behave as their abstract data types.  Statements only; proofs are in Dsa/*_proofs.v *)
From CAres.Dsa Require Import Array Array_proofs.
From CAres.Gen Require Import Consts.

(* ===================== array (src/lib/dsa/ares_array.c) ===================== *)

(* The C19 array theorem: for EVERY sequence of API calls on a fresh array, with an allocator
   that never refuses, the model returns call by call what the plain list returns (statuses,
   removed members, reads, lengths), ends with the list as its members, and never runs into C
   undefined behaviour.  "Keeps sequence order for inserts and removals at any index and stays
   usable after any removal pattern". *)
Theorem C19_array_run_refines : forall ops : list arr_op,
  let '(a', rs) := arr_run arr_create (map (fun o => (true, o)) ops) in
  let '(l', rs') := aspec_run [] ops in
  rs = rs' /\ arr_abs a' = l' /\ ~ In RUB rs.
Proof. exact arr_run_refines. Qed.
Print Assumptions C19_array_run_refines.

(* With an allocator that may refuse (one answer per call): the only deviation from the list is
   an in-range insert that reports ARES_ENOMEM and changes nothing, and only when the allocator
   refused.  (Container-level half of C14 for the array.) *)
Theorem C19_array_run_alloc_refines : forall ops : list (bool * arr_op),
  let '(a', rs) := arr_run arr_create ops in
  aspec_trace [] ops rs (arr_abs a') /\ ~ In RUB rs.
Proof. exact arr_run_alloc_refines. Qed.
Print Assumptions C19_array_run_alloc_refines.

(* Per operation, on any state satisfying the invariant (established by create, preserved). *)
Theorem C19_array_insert : forall ok a idx v,
  arr_inv_full a -> idx <= a_cnt a ->
  (exists a', arr_insertdata_at ok a idx v = Ok a' /\ arr_inv_full a'
              /\ a_cnt a' = S (a_cnt a)
              /\ arr_abs a' = firstn idx (arr_abs a) ++ v :: skipn idx (arr_abs a))
  \/ (ok = false /\ arr_insertdata_at ok a idx v = Err ARES_ENOMEM).
Proof. exact arr_insert_refines. Qed.
Print Assumptions C19_array_insert.

Theorem C19_array_insert_bad_index : forall ok a idx v,
  a_cnt a < idx -> arr_insertdata_at ok a idx v = Err ARES_EFORMERR.
Proof. exact arr_insert_bad_index. Qed.
Print Assumptions C19_array_insert_bad_index.

Theorem C19_array_remove : forall a idx,
  arr_inv_full a -> idx < a_cnt a ->
  exists a' v, arr_remove_at a idx = Ok (a', v) /\ arr_inv_full a'
               /\ S (a_cnt a') = a_cnt a
               /\ nth_error (arr_abs a) idx = Some v
               /\ arr_abs a' = firstn idx (arr_abs a) ++ skipn (S idx) (arr_abs a).
Proof. exact arr_remove_refines. Qed.
Print Assumptions C19_array_remove.

Theorem C19_array_remove_bad_index : forall a idx,
  a_cnt a <= idx -> arr_remove_at a idx = Err ARES_EFORMERR.
Proof. exact arr_remove_bad_index. Qed.
Print Assumptions C19_array_remove_bad_index.

Theorem C19_array_at_refines : forall a idx, arr_at a idx = nth_error (arr_abs a) idx.
Proof. exact arr_at_refines. Qed.
Print Assumptions C19_array_at_refines.

(* ares_array_finish after any sequence of calls hands out exactly the list, in order. *)
Theorem C19_array_run_finish : forall ops : list arr_op,
  arr_finish (fst (arr_run arr_create (map (fun o => (true, o)) ops))) = Ok (fst (aspec_run [] ops)).
Proof. exact arr_run_finish. Qed.
Print Assumptions C19_array_run_finish.

(* ---- doubly linked list (src/lib/dsa/ares_llist.c): Dsa/LList.v, Dsa/LList_proofs.v ---- *)
From CAres.Dsa Require Import LList LList_proofs.

(* the invariant [ll_inv h s] (heap h represents the finite set of lists s) holds initially *)
Theorem C19_llist_inv_create : ll_inv ll_heap_empty ll_spec_empty.
Proof. exact ll_inv_empty. Qed.
Print Assumptions C19_llist_inv_create.

(* one API call whose node / list arguments are alive (NULL allowed): never UB, never out of
   fuel, returns what the list specification returns, re-establishes the invariant *)
Theorem C19_llist_exec_refines : forall h s o, ll_inv h s ->
  forallb (ll_sp_node_live s) (ll_op_nodes o) && forallb (ll_sp_list_live s) (ll_op_lists o) = true ->
  exists h', ll_exec h o = Ok (h', snd (ll_spec_exec s o)) /\ ll_inv h' (fst (ll_spec_exec s o)).
Proof. exact ll_exec_refines. Qed.
Print Assumptions C19_llist_exec_refines.

(* one step of a caller that never passes dangling pointers (such calls are skipped, and model
   and specification agree on which pointers dangle) *)
Theorem C19_llist_step_refines : forall h s o, ll_inv h s ->
  exists h', ll_model_step h o = Ok (h', snd (ll_spec_step s o)) /\ ll_inv h' (fst (ll_spec_step s o)).
Proof. exact ll_step_refines. Qed.
Print Assumptions C19_llist_step_refines.

(* MAIN: for every operation sequence over any number of lists, starting from nothing, the
   code-shaped model yields exactly the results and observations of the list specification:
   after every operation, every result and, for every live list, the forward traversal
   (node, value, parent), the backward traversal and len *)
Theorem C19_llist_run_refines : forall ops,
  ll_run_model ll_heap_empty ops = Ok (ll_run_spec ll_spec_empty ops).
Proof. exact ll_run_refines_from_create. Qed.
Print Assumptions C19_llist_run_refines.

(* the same from any state satisfying the invariant *)
Theorem C19_llist_run_refines_inv : forall ops h s, ll_inv h s ->
  ll_run_model h ops = Ok (ll_run_spec s ops).
Proof. exact ll_run_refines. Qed.
Print Assumptions C19_llist_run_refines_inv.

(* the invariant holds after every operation sequence *)
Theorem C19_llist_inv_reachable : forall ops h s, ll_inv h s ->
  exists h', ll_model_after h ops = Ok h' /\ ll_inv h' (ll_spec_after s ops).
Proof. exact ll_inv_reachable. Qed.
Print Assumptions C19_llist_inv_reachable.

(* C19_llist_order: forward traversal (head, next, ...) = the specification list, every node's
   parent is the list; backward traversal (tail, prev, ...) = its reverse; len = its length;
   the traversal fuel (number of nodes ever created) is never exhausted *)
Theorem C19_llist_order : forall h s l sl, ll_inv h s -> nth_error (sp_lists s) l = Some (Some sl) ->
  ll_observe_list h l =
  Ok (mkLV (map (fun x => (fst x, snd x, Some l)) (sl_items sl)) (rev (sl_items sl)) (length (sl_items sl))).
Proof. exact ll_order. Qed.
Print Assumptions C19_llist_order.

Theorem C19_llist_fwd_rev_bwd : forall h s l sl v, ll_inv h s -> nth_error (sp_lists s) l = Some (Some sl) ->
  ll_observe_list h l = Ok v ->
  map (fun x => (fst (fst x), snd (fst x))) (lv_fwd v) = rev (lv_bwd v) /\
  lv_len v = length (lv_fwd v) /\ lv_len v = length (lv_bwd v) /\
  forall x, In x (lv_fwd v) -> snd x = Some l.
Proof. exact ll_fwd_rev_bwd. Qed.
Print Assumptions C19_llist_fwd_rev_bwd.

(* all live lists at once *)
Theorem C19_llist_observe : forall h s, ll_inv h s -> ll_observe h = Ok (ll_spec_observe s).
Proof. exact ll_observe_ok. Qed.
Print Assumptions C19_llist_observe.

(* every allocated node is in exactly one list at exactly one position, its parent pointer
   names that list and its value is the specification's; members are allocated *)
Theorem C19_llist_one_owner : forall h s n, ll_inv h s -> ll_node_live h n = true ->
  exists l sl p v,
    nth_error (sp_lists s) l = Some (Some sl) /\ nth_error (sl_items sl) p = Some (n, v) /\
    ll_node_parent h (Some n) = Ok (Some l) /\ ll_node_val h (Some n) = Ok v /\
    forall l' sl' p' v', nth_error (sp_lists s) l' = Some (Some sl') ->
      nth_error (sl_items sl') p' = Some (n, v') -> l' = l /\ p' = p /\ v' = v.
Proof. exact ll_one_owner. Qed.
Print Assumptions C19_llist_one_owner.

Theorem C19_llist_members_live : forall h s l sl p n v, ll_inv h s ->
  nth_error (sp_lists s) l = Some (Some sl) -> nth_error (sl_items sl) p = Some (n, v) ->
  ll_node_live h n = true.
Proof. exact ll_members_live. Qed.
Print Assumptions C19_llist_members_live.

(* C14 (atomicity): with a failing allocator create / insert_* return NULL and neither the
   heap nor the specification state changes *)
Theorem C19_llist_alloc_fail_atomic : forall h s o, ll_inv h s -> ll_is_failing_alloc o = true ->
  exists r, ll_model_step h o = Ok (h, r) /\ ll_spec_step s o = (s, r) /\
            (r = RSkip \/ r = RNode None \/ r = RList None).
Proof. exact ll_step_alloc_fail_atomic. Qed.
Print Assumptions C19_llist_alloc_fail_atomic.
