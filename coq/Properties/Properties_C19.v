(* C19 - containers behave as their abstract data types.  Statements only; proofs are in Dsa/*_proofs.v *)
From CAres.Dsa Require Import Array Array_proofs.
From CAres.Gen Require Import Consts.

(* ===================== array (src/lib/dsa/ares_array.c) ===================== *)

(* The C19 array theorem: for EVERY sequence of API calls on a fresh array, with an allocator
   that never refuses, the model returns call by call what the plain list returns (statuses,
   removed members, reads, lengths), ends with the list as its members, and never runs into C
   undefined behaviour.  "Keeps sequence order for inserts and removals at any index and stays
   usable after any removal pattern". *)
Theorem C19_array_run_refines : forall ops : list arr_op,
  let '(a', rs) := arr_run arr_create (map (fun o => (true, o)) ops) in
  let '(l', rs') := aspec_run [] ops in
  rs = rs' /\ arr_abs a' = l' /\ ~ In RUB rs.
Proof. exact arr_run_refines. Qed.
Print Assumptions C19_array_run_refines.

(* With an allocator that may refuse (one answer per call): the only deviation from the list is
   an in-range insert that reports ARES_ENOMEM and changes nothing, and only when the allocator
   refused.  (Container-level half of C14 for the array.) *)
Theorem C19_array_run_alloc_refines : forall ops : list (bool * arr_op),
  let '(a', rs) := arr_run arr_create ops in
  aspec_trace [] ops rs (arr_abs a') /\ ~ In RUB rs.
Proof. exact arr_run_alloc_refines. Qed.
Print Assumptions C19_array_run_alloc_refines.

(* Per operation, on any state satisfying the invariant (established by create, preserved). *)
Theorem C19_array_insert : forall ok a idx v,
  arr_inv_full a -> idx <= a_cnt a ->
  (exists a', arr_insertdata_at ok a idx v = Ok a' /\ arr_inv_full a'
              /\ a_cnt a' = S (a_cnt a)
              /\ arr_abs a' = firstn idx (arr_abs a) ++ v :: skipn idx (arr_abs a))
  \/ (ok = false /\ arr_insertdata_at ok a idx v = Err ARES_ENOMEM).
Proof. exact arr_insert_refines. Qed.
Print Assumptions C19_array_insert.

Theorem C19_array_insert_bad_index : forall ok a idx v,
  a_cnt a < idx -> arr_insertdata_at ok a idx v = Err ARES_EFORMERR.
Proof. exact arr_insert_bad_index. Qed.
Print Assumptions C19_array_insert_bad_index.

Theorem C19_array_remove : forall a idx,
  arr_inv_full a -> idx < a_cnt a ->
  exists a' v, arr_remove_at a idx = Ok (a', v) /\ arr_inv_full a'
               /\ S (a_cnt a') = a_cnt a
               /\ nth_error (arr_abs a) idx = Some v
               /\ arr_abs a' = firstn idx (arr_abs a) ++ skipn (S idx) (arr_abs a).
Proof. exact arr_remove_refines. Qed.
Print Assumptions C19_array_remove.

Theorem C19_array_remove_bad_index : forall a idx,
  a_cnt a <= idx -> arr_remove_at a idx = Err ARES_EFORMERR.
Proof. exact arr_remove_bad_index. Qed.
Print Assumptions C19_array_remove_bad_index.

Theorem C19_array_at_refines : forall a idx, arr_at a idx = nth_error (arr_abs a) idx.
Proof. exact arr_at_refines. Qed.
Print Assumptions C19_array_at_refines.

(* ares_array_finish after any sequence of calls hands out exactly the list, in order. *)
Theorem C19_array_run_finish : forall ops : list arr_op,
  arr_finish (fst (arr_run arr_create (map (fun o => (true, o)) ops))) = Ok (fst (aspec_run [] ops)).
Proof. exact arr_run_finish. Qed.
Print Assumptions C19_array_run_finish.
