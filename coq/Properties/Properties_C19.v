(* C19 - containers behave as their abstract data types.  Statements only; proofs are in Dsa/*_proofs.v *)
From CAres.Dsa Require Import Array Array_proofs.
From CAres.Gen Require Import Consts.

Theorem C19_array_at_refines : forall a idx, arr_at a idx = nth_error (arr_abs a) idx.
Proof. exact arr_at_refines. Qed.
Print Assumptions C19_array_at_refines.
