(* C19 - containers behave as their abstract data types.  Statements only; proofs are in Dsa/*_proofs.v *)
From CAres.Dsa Require Import Array Array_proofs.
From CAres.Gen Require Import Consts.
From Coq Require Import Permutation Sorted.

(* ===================== array (src/lib/dsa/ares_array.c) ===================== *)

(* The C19 array theorem: for EVERY sequence of API calls on a fresh array, with an allocator
   that never refuses, the model returns call by call what the plain list returns (statuses,
   removed members, reads, lengths), ends with the list as its members, and never runs into C
   undefined behaviour.  "Keeps sequence order for inserts and removals at any index and stays
   usable after any removal pattern". *)
Theorem C19_array_run_refines : forall (qsort : list Z -> list Z),
  (forall l, Permutation (qsort l) l) ->      (* the C library's qsort permutes its input *)
  forall ops : list arr_op,
  let '(a', rs) := arr_run qsort arr_create (map (fun o => (true, o)) ops) in
  let '(l', rs') := aspec_run qsort [] ops in
  rs = rs' /\ arr_abs a' = l' /\ ~ In RUB rs.
Proof. exact arr_run_refines. Qed.
Print Assumptions C19_array_run_refines.

(* With an allocator that may refuse (one answer per call): the only deviation from the list is
   an in-range insert that reports ARES_ENOMEM and changes nothing, and only when the allocator
   refused.  (Container-level half of C14 for the array.) *)
Theorem C19_array_run_alloc_refines : forall (qsort : list Z -> list Z),
  (forall l, Permutation (qsort l) l) ->
  forall ops : list (bool * arr_op),
  let '(a', rs) := arr_run qsort arr_create ops in
  aspec_trace qsort [] ops rs (arr_abs a') /\ ~ In RUB rs.
Proof. exact arr_run_alloc_refines. Qed.
Print Assumptions C19_array_run_alloc_refines.

(* ares_array_sort: qsort is applied to exactly the members and the result stays in place; with
   a qsort that sorts, the members end up sorted by cmp and are the same multiset. *)
Theorem C19_array_sort : forall (qsort : list Z -> list Z) (cmp : Z -> Z -> Z),
  (forall l, Permutation (qsort l) l) ->
  (forall l, Sorted (fun x y => (cmp x y <= 0)%Z) (qsort l)) ->
  forall a, arr_inv_full a ->
  exists a', arr_sort qsort a = Ok a' /\ arr_inv_full a'
             /\ arr_abs a' = qsort (arr_abs a)
             /\ Sorted (fun x y => (cmp x y <= 0)%Z) (arr_abs a')
             /\ Permutation (arr_abs a') (arr_abs a).
Proof. exact (fun qsort cmp Hp => arr_sort_full qsort Hp cmp). Qed.
Print Assumptions C19_array_sort.

(* Per operation, on any state satisfying the invariant (established by create, preserved). *)
Theorem C19_array_insert : forall ok a idx v,
  arr_inv_full a -> idx <= a_cnt a ->
  (exists a', arr_insertdata_at ok a idx v = Ok a' /\ arr_inv_full a'
              /\ a_cnt a' = S (a_cnt a)
              /\ arr_abs a' = firstn idx (arr_abs a) ++ v :: skipn idx (arr_abs a))
  \/ (ok = false /\ arr_insertdata_at ok a idx v = Err ARES_ENOMEM).
Proof. exact arr_insert_refines. Qed.
Print Assumptions C19_array_insert.

Theorem C19_array_insert_bad_index : forall ok a idx v,
  a_cnt a < idx -> arr_insertdata_at ok a idx v = Err ARES_EFORMERR.
Proof. exact arr_insert_bad_index. Qed.
Print Assumptions C19_array_insert_bad_index.

Theorem C19_array_remove : forall a idx,
  arr_inv_full a -> idx < a_cnt a ->
  exists a' v, arr_remove_at a idx = Ok (a', v) /\ arr_inv_full a'
               /\ S (a_cnt a') = a_cnt a
               /\ nth_error (arr_abs a) idx = Some v
               /\ arr_abs a' = firstn idx (arr_abs a) ++ skipn (S idx) (arr_abs a).
Proof. exact arr_remove_refines. Qed.
Print Assumptions C19_array_remove.

Theorem C19_array_remove_bad_index : forall a idx,
  a_cnt a <= idx -> arr_remove_at a idx = Err ARES_EFORMERR.
Proof. exact arr_remove_bad_index. Qed.
Print Assumptions C19_array_remove_bad_index.

Theorem C19_array_at_refines : forall a idx, arr_at a idx = nth_error (arr_abs a) idx.
Proof. exact arr_at_refines. Qed.
Print Assumptions C19_array_at_refines.

(* ares_array_finish after any sequence of calls hands out exactly the list, in order. *)
Theorem C19_array_run_finish : forall (qsort : list Z -> list Z),
  (forall l, Permutation (qsort l) l) ->
  forall ops : list arr_op,
  arr_finish (fst (arr_run qsort arr_create (map (fun o => (true, o)) ops))) = Ok (fst (aspec_run qsort [] ops)).
Proof. exact arr_run_finish. Qed.
Print Assumptions C19_array_run_finish.

(* ---- doubly linked list (src/lib/dsa/ares_llist.c): Dsa/LList.v, Dsa/LList_proofs.v ---- *)
From CAres.Dsa Require Import LList LList_proofs.

(* the invariant [ll_inv h s] (heap h represents the finite set of lists s) holds initially *)
Theorem C19_llist_inv_create : ll_inv ll_heap_empty ll_spec_empty.
Proof. exact ll_inv_empty. Qed.
Print Assumptions C19_llist_inv_create.

(* one API call whose node / list arguments are alive (NULL allowed): never UB, never out of
   fuel, returns what the list specification returns, re-establishes the invariant *)
Theorem C19_llist_exec_refines : forall h s o, ll_inv h s ->
  forallb (ll_sp_node_live s) (ll_op_nodes o) && forallb (ll_sp_list_live s) (ll_op_lists o) = true ->
  exists h', ll_exec h o = Ok (h', snd (ll_spec_exec s o)) /\ ll_inv h' (fst (ll_spec_exec s o)).
Proof. exact ll_exec_refines. Qed.
Print Assumptions C19_llist_exec_refines.

(* one step of a caller that never passes dangling pointers (such calls are skipped, and model
   and specification agree on which pointers dangle) *)
Theorem C19_llist_step_refines : forall h s o, ll_inv h s ->
  exists h', ll_model_step h o = Ok (h', snd (ll_spec_step s o)) /\ ll_inv h' (fst (ll_spec_step s o)).
Proof. exact ll_step_refines. Qed.
Print Assumptions C19_llist_step_refines.

(* MAIN: for every operation sequence over any number of lists, starting from nothing, the
   code-shaped model yields exactly the results and observations of the list specification:
   after every operation, every result and, for every live list, the forward traversal
   (node, value, parent), the backward traversal and len *)
Theorem C19_llist_run_refines : forall ops,
  ll_run_model ll_heap_empty ops = Ok (ll_run_spec ll_spec_empty ops).
Proof. exact ll_run_refines_from_create. Qed.
Print Assumptions C19_llist_run_refines.

(* the same from any state satisfying the invariant *)
Theorem C19_llist_run_refines_inv : forall ops h s, ll_inv h s ->
  ll_run_model h ops = Ok (ll_run_spec s ops).
Proof. exact ll_run_refines. Qed.
Print Assumptions C19_llist_run_refines_inv.

(* the invariant holds after every operation sequence *)
Theorem C19_llist_inv_reachable : forall ops h s, ll_inv h s ->
  exists h', ll_model_after h ops = Ok h' /\ ll_inv h' (ll_spec_after s ops).
Proof. exact ll_inv_reachable. Qed.
Print Assumptions C19_llist_inv_reachable.

(* C19_llist_order: forward traversal (head, next, ...) = the specification list, every node's
   parent is the list; backward traversal (tail, prev, ...) = its reverse; len = its length;
   the traversal fuel (number of nodes ever created) is never exhausted *)
Theorem C19_llist_order : forall h s l sl, ll_inv h s -> nth_error (sp_lists s) l = Some (Some sl) ->
  ll_observe_list h l =
  Ok (mkLV (map (fun x => (fst x, snd x, Some l)) (sl_items sl)) (rev (sl_items sl)) (length (sl_items sl))).
Proof. exact ll_order. Qed.
Print Assumptions C19_llist_order.

Theorem C19_llist_fwd_rev_bwd : forall h s l sl v, ll_inv h s -> nth_error (sp_lists s) l = Some (Some sl) ->
  ll_observe_list h l = Ok v ->
  map (fun x => (fst (fst x), snd (fst x))) (lv_fwd v) = rev (lv_bwd v) /\
  lv_len v = length (lv_fwd v) /\ lv_len v = length (lv_bwd v) /\
  forall x, In x (lv_fwd v) -> snd x = Some l.
Proof. exact ll_fwd_rev_bwd. Qed.
Print Assumptions C19_llist_fwd_rev_bwd.

(* all live lists at once *)
Theorem C19_llist_observe : forall h s, ll_inv h s -> ll_observe h = Ok (ll_spec_observe s).
Proof. exact ll_observe_ok. Qed.
Print Assumptions C19_llist_observe.

(* every allocated node is in exactly one list at exactly one position, its parent pointer
   names that list and its value is the specification's; members are allocated *)
Theorem C19_llist_one_owner : forall h s n, ll_inv h s -> ll_node_live h n = true ->
  exists l sl p v,
    nth_error (sp_lists s) l = Some (Some sl) /\ nth_error (sl_items sl) p = Some (n, v) /\
    ll_node_parent h (Some n) = Ok (Some l) /\ ll_node_val h (Some n) = Ok v /\
    forall l' sl' p' v', nth_error (sp_lists s) l' = Some (Some sl') ->
      nth_error (sl_items sl') p' = Some (n, v') -> l' = l /\ p' = p /\ v' = v.
Proof. exact ll_one_owner. Qed.
Print Assumptions C19_llist_one_owner.

Theorem C19_llist_members_live : forall h s l sl p n v, ll_inv h s ->
  nth_error (sp_lists s) l = Some (Some sl) -> nth_error (sl_items sl) p = Some (n, v) ->
  ll_node_live h n = true.
Proof. exact ll_members_live. Qed.
Print Assumptions C19_llist_members_live.

(* C14 (atomicity): with a failing allocator create / insert_* return NULL and neither the
   heap nor the specification state changes *)
Theorem C19_llist_alloc_fail_atomic : forall h s o, ll_inv h s -> ll_is_failing_alloc o = true ->
  exists r, ll_model_step h o = Ok (h, r) /\ ll_spec_step s o = (s, r) /\
            (r = RSkip \/ r = RNode None \/ r = RList None).
Proof. exact ll_step_alloc_fail_atomic. Qed.
Print Assumptions C19_llist_alloc_fail_atomic.

(* ---- skip list (ares_slist.c): coq/Dsa/SList.v, SList_heap.v, SList_proofs.v ---- *)
From CAres.Dsa Require Import SList SList_proofs.

(* main statement: for every comparison callback whose sign is a total preorder and every
   operation sequence (every level choice, every allocator answer), a whole life of the model
   (create, the operations, destroy) yields exactly the results of the sorted-list specification,
   in particular it is never UB and never runs out of fuel *)
Theorem C19_slist_refines :
  forall (D : Type) (cmp : D -> D -> Z),
    (forall a b : D, (cmp a b > 0)%Z <-> (cmp b a < 0)%Z) ->
    (forall a b c : D, (cmp a b <= 0)%Z -> (cmp b c <= 0)%Z -> (cmp a c <= 0)%Z) ->
    forall ops : list (sl_op D), sl_life_model cmp ops = Ok (sl_life_spec cmp ops).
Proof. exact @sl_life_refines. Qed.
Print Assumptions C19_slist_refines.

Theorem C19_slist_never_ub :
  forall (D : Type) (cmp : D -> D -> Z),
    (forall a b : D, (cmp a b > 0)%Z <-> (cmp b a < 0)%Z) ->
    (forall a b c : D, (cmp a b <= 0)%Z -> (cmp b c <= 0)%Z -> (cmp a c <= 0)%Z) ->
    forall ops : list (sl_op D),
      is_ub (sl_life_model cmp ops) = false /\ sl_life_model cmp ops <> Err OutOfFuel.
Proof. exact @sl_life_never_ub. Qed.
Print Assumptions C19_slist_never_ub.

(* after any operation sequence: first/next... yields the specification list, last/prev... its
   reverse, len its length; it is sorted by cmp and holds every node at most once *)
Theorem C19_slist_sorted_stable :
  forall (D : Type) (cmp : D -> D -> Z),
    (forall a b : D, (cmp a b > 0)%Z <-> (cmp b a < 0)%Z) ->
    (forall a b c : D, (cmp a b <= 0)%Z -> (cmp b c <= 0)%Z -> (cmp a c <= 0)%Z) ->
    forall ops : list (sl_op D),
    exists (s0 : slist D) (rs : list (sl_res D)) (s : slist D),
      sl_create true true = Some s0 /\
      sl_run_model cmp s0 ops = Ok (rs, s) /\
      (let l := sp_l (snd (sl_run_spec cmp sl_spec_create ops)) in
       sl_walk_fwd s = Ok l /\ sl_walk_bwd s = Ok (rev l) /\ sl_len s = length l /\
       sl_sorted cmp (map snd l) /\ NoDup (map fst l)).
Proof. exact @sl_sorted_stable. Qed.
Print Assumptions C19_slist_sorted_stable.

(* nothing lost or duplicated: the specification's insert adds exactly the new element, its
   removal takes out exactly the named node *)
Theorem C19_slist_insert_adds_one :
  forall (D : Type) (cmp : D -> D -> Z) (x : nat * D) (l : list (nat * D)),
    Permutation (sl_spec_ins cmp x l) (x :: l).
Proof. exact @sl_spec_ins_perm. Qed.
Print Assumptions C19_slist_insert_adds_one.

Theorem C19_slist_remove_takes_one :
  forall (D : Type) (l : list (nat * D)) (n : nat) (d : D),
    NoDup (map fst l) -> In (n, d) l -> Permutation l ((n, d) :: sl_spec_remove n l).
Proof. exact @sl_spec_remove_perm. Qed.
Print Assumptions C19_slist_remove_takes_one.

(* the tie rule of the C code: a new element goes after all strictly smaller elements and BEFORE
   all elements that are equal or larger *)
Theorem C19_slist_insert_position :
  forall (D : Type) (cmp : D -> D -> Z),
    (forall a b c : D, (cmp a b <= 0)%Z -> (cmp b c <= 0)%Z -> (cmp a c <= 0)%Z) ->
    forall (x : nat * D) (sp : list (nat * D)),
      sl_sorted cmp (map snd sp) ->
      exists Pl Sl : list (nat * D),
        sp = Pl ++ Sl /\ sl_spec_ins cmp x sp = Pl ++ x :: Sl /\
        (forall e : nat * D, In e Pl -> (cmp (snd x) (snd e) > 0)%Z) /\
        (forall e : nat * D, In e Sl -> (cmp (snd x) (snd e) <= 0)%Z).
Proof. exact @sl_spec_ins_split. Qed.
Print Assumptions C19_slist_insert_position.

(* find returns the first element (in first/next order) that compares equal to the probe, and
   NULL exactly when there is none *)
Theorem C19_slist_find_first :
  forall (D : Type) (cmp : D -> D -> Z),
    (forall a b : D, (cmp a b > 0)%Z <-> (cmp b a < 0)%Z) ->
    (forall a b c : D, (cmp a b <= 0)%Z -> (cmp b c <= 0)%Z -> (cmp a c <= 0)%Z) ->
    forall (ops : list (sl_op D)) (v : D),
    exists (s0 : slist D) (rs : list (sl_res D)) (s : slist D) (l : list (nat * D)),
      sl_create true true = Some s0 /\
      sl_run_model cmp s0 ops = Ok (rs, s) /\
      sl_walk_fwd s = Ok l /\
      (exists r : option nat,
         sl_node_find cmp s v = Ok r /\
         match r with
         | Some f =>
             exists (A : list (nat * D)) (d : D) (B : list (nat * D)),
               l = A ++ (f, d) :: B /\ cmp v d = 0%Z /\
               (forall e : nat * D, In e A -> cmp v (snd e) <> 0%Z)
         | None => forall e : nat * D, In e l -> cmp v (snd e) <> 0%Z
         end).
Proof. exact @sl_find_first. Qed.
Print Assumptions C19_slist_find_first.

(* first = minimum *)
Theorem C19_slist_first_minimum :
  forall (D : Type) (cmp : D -> D -> Z),
    (forall a b : D, (cmp a b > 0)%Z <-> (cmp b a < 0)%Z) ->
    (forall a b c : D, (cmp a b <= 0)%Z -> (cmp b c <= 0)%Z -> (cmp a c <= 0)%Z) ->
    forall ops : list (sl_op D),
    exists (s0 : slist D) (rs : list (sl_res D)) (s : slist D) (l : list (nat * D)),
      sl_create true true = Some s0 /\
      sl_run_model cmp s0 ops = Ok (rs, s) /\
      sl_walk_fwd s = Ok l /\
      sl_first_val s = Ok (option_map snd (hd_error l)) /\
      (forall d : D, option_map snd (hd_error l) = Some d ->
                     forall e : nat * D, In e l -> (cmp d (snd e) <= 0)%Z).
Proof. exact @sl_first_minimum. Qed.
Print Assumptions C19_slist_first_minimum.

(* the coin flips are unobservable: two operation sequences that differ only in the level
   choices give the same results (as long as the head-array reallocation, the one allocation
   whose occurrence depends on the levels, is not made to fail) *)
Theorem C19_slist_level_choice_irrelevant :
  forall (D : Type) (cmp : D -> D -> Z),
    (forall a b : D, (cmp a b > 0)%Z <-> (cmp b a < 0)%Z) ->
    (forall a b c : D, (cmp a b <= 0)%Z -> (cmp b c <= 0)%Z -> (cmp a c <= 0)%Z) ->
    forall ops ops' : list (sl_op D),
      map sl_op_erase ops = map sl_op_erase ops' ->
      Forall sl_op_head_ok ops -> Forall sl_op_head_ok ops' ->
      sl_life_model cmp ops = sl_life_model cmp ops'.
Proof. exact @sl_level_choice_irrelevant. Qed.
Print Assumptions C19_slist_level_choice_irrelevant.

(* an operation through a pointer to a released node is an explicit UB of the model *)
Theorem C19_slist_dead_node_is_ub :
  forall (D : Type) (s : slist D) (n : nat),
    sl_is_live s n = false ->
    sl_node_claim s n = UB UseAfterFree /\ sl_node_next s n = UB UseAfterFree /\
    sl_node_prev s n = UB UseAfterFree /\ sl_node_val s n = UB UseAfterFree /\
    sl_node_pop s n = UB UseAfterFree.
Proof. exact @sl_dead_node_is_ub. Qed.
Print Assumptions C19_slist_dead_node_is_ub.

(* ---- hash table (ares_htable.c + typed wrappers): coq/Dsa/Htable.v, Htable_proofs.v ---- *)
From CAres.Dsa Require Import Htable Htable_proofs.

(* MAIN: every operation sequence from ares_htable_create, ANY hash function compatible with
   the key equality, any seed, any allocator behaviour: the model is never UB, never takes the
   "impossible" pool-exhausted branch of ares_htable_expand, and its observable results
   (insert/remove return values and freed entries, get results, counts, iteration and the
   entries freed by destroy as multisets) are those of the association-list specification;
   an insert reports failure only if the allocator refused a request during the call, and
   then the map is unchanged. *)
Theorem C19_ht_run_refines :
  forall (K V : Type) (keq : K -> K -> bool) (hash : K -> Z -> Z),
    (forall a : K, keq a a = true) ->
    (forall a b : K, keq a b = keq b a) ->
    (forall a b c : K, keq a b = true -> keq b c = true -> keq a c = true) ->
    (forall (a b : K) (s : Z), keq a b = true -> hash a s = hash b s) ->
    forall (vnull : V) (seed : Z) (ops : list (@ht_op K V)),
    exists tr : list (@ht_obs K V),
      ht_run_model keq hash vnull seed ops = Ok tr /\
      Forall2 ht_obs_eq tr (ht_run_spec keq vnull ops (map (@ht_obs_ok K V) tr)) /\
      ht_justified ops tr.
Proof. exact @ht_run_refines. Qed.
Print Assumptions C19_ht_run_refines.

(* when the allocator never refuses, the results are a function of the operations alone *)
Theorem C19_ht_run_refines_nofail :
  forall (K V : Type) (keq : K -> K -> bool) (hash : K -> Z -> Z),
    (forall a : K, keq a a = true) ->
    (forall a b : K, keq a b = keq b a) ->
    (forall a b c : K, keq a b = true -> keq b c = true -> keq a c = true) ->
    (forall (a b : K) (s : Z), keq a b = true -> hash a s = hash b s) ->
    forall (vnull : V) (seed : Z) (ops : list (@ht_op K V)),
    Forall (fun op => ~ ht_op_can_fail op) ops ->
    exists tr : list (@ht_obs K V),
      ht_run_model keq hash vnull seed ops = Ok tr /\
      Forall2 ht_obs_eq tr (ht_run_spec keq vnull ops []).
Proof. exact @ht_run_refines_nofail. Qed.
Print Assumptions C19_ht_run_refines_nofail.

(* ... hence independent of the hash function and of the seed *)
Theorem C19_ht_run_hash_independent :
  forall (K V : Type) (keq : K -> K -> bool) (hash1 hash2 : K -> Z -> Z)
         (vnull : V) (seed1 seed2 : Z) (ops : list (@ht_op K V)),
    (forall a, keq a a = true) -> (forall a b, keq a b = keq b a) ->
    (forall a b c, keq a b = true -> keq b c = true -> keq a c = true) ->
    (forall a b s, keq a b = true -> hash1 a s = hash1 b s) ->
    (forall a b s, keq a b = true -> hash2 a s = hash2 b s) ->
    Forall (fun op => ~ ht_op_can_fail op) ops ->
    exists tr1 tr2,
      ht_run_model keq hash1 vnull seed1 ops = Ok tr1 /\
      ht_run_model keq hash2 vnull seed2 ops = Ok tr2 /\
      Forall2 ht_obs_eq tr1 tr2.
Proof. exact @ht_run_hash_independent. Qed.
Print Assumptions C19_ht_run_hash_independent.

(* the invariant (size a power of two in [2^4, 2^24], every entry in bucket HASH_IDX of its
   key, no key twice, num_keys = number of entries, num_collisions = sum of (len - 1)) is
   preserved by every operation sequence, growth included *)
Theorem C19_ht_invariant_preserved :
  forall (K V : Type) (keq : K -> K -> bool) (hash : K -> Z -> Z),
    (forall a : K, keq a a = true) ->
    (forall a b : K, keq a b = keq b a) ->
    (forall a b c : K, keq a b = true -> keq b c = true -> keq a c = true) ->
    (forall (a b : K) (s : Z), keq a b = true -> hash a s = hash b s) ->
    forall (vnull : V) (ops : list (@ht_op K V)) (h h' : @ht K V),
    ht_inv keq hash h ->
    ht_exec keq hash vnull h ops = Ok h' ->
    (exists n, 4 <= n <= 24 /\ ht_size h' = 2 ^ n) /\
    length (ht_buckets h') = ht_size h' /\
    (forall i b e, nth_error (ht_buckets h') i = Some b -> In e (ht_nodes b) ->
                   ht_idx hash (ht_size h') (ht_seed h') (fst e) = i) /\
    ht_nodup keq (ht_entries_of (ht_buckets h')) /\
    ht_num_keys h' = length (ht_entries_of (ht_buckets h')) /\
    ht_num_collisions h' = list_sum (map (fun b => length (ht_nodes b) - 1) (ht_buckets h')).
Proof. exact @ht_exec_inv. Qed.
Print Assumptions C19_ht_invariant_preserved.

(* get after a successful insert returns the latest value (also when the insert grew the
   table); other keys are unaffected *)
Theorem C19_ht_latest_value :
  forall (K V : Type) (keq : K -> K -> bool) (hash : K -> Z -> Z),
    (forall a b : K, keq a b = keq b a) ->
    (forall a b c : K, keq a b = true -> keq b c = true -> keq a c = true) ->
    (forall (a b : K) (s : Z), keq a b = true -> hash a s = hash b s) ->
    forall (o : list bool) (h : @ht K V) (k : K) (v : V) (h' : @ht K V) (r : ht_ins_result) (k' : K),
    ht_inv keq hash h ->
    ht_insert keq hash o h (k, v) = Ok (h', r) ->
    r <> HtFailed ->
    ht_get keq hash h' k' = (if keq k' k then Ok (Some (k, v)) else ht_get keq hash h k').
Proof. exact @ht_get_after_insert. Qed.
Print Assumptions C19_ht_latest_value.

(* insert of an existing key keeps the count, a new key adds one *)
Theorem C19_ht_count_after_insert :
  forall (K V : Type) (keq : K -> K -> bool) (hash : K -> Z -> Z),
    (forall a b : K, keq a b = keq b a) ->
    (forall a b c : K, keq a b = true -> keq b c = true -> keq a c = true) ->
    (forall (a b : K) (s : Z), keq a b = true -> hash a s = hash b s) ->
    forall (o : list bool) (h : @ht K V) (e : ht_entry) (h' : @ht K V) (r : ht_ins_result),
    ht_inv keq hash h ->
    ht_insert keq hash o h e = Ok (h', r) ->
    r <> HtFailed ->
    ht_num_keys h' = match hts_get keq (fst e) (ht_entries h) with
                     | Some _ => ht_num_keys h
                     | None => S (ht_num_keys h)
                     end.
Proof. exact @ht_num_keys_after_insert. Qed.
Print Assumptions C19_ht_count_after_insert.

(* remove reports (and frees) the binding that was present; afterwards the key is absent,
   other keys are unaffected, the count drops by one iff something was removed *)
Theorem C19_ht_remove :
  forall (K V : Type) (keq : K -> K -> bool) (hash : K -> Z -> Z),
    (forall a b : K, keq a b = keq b a) ->
    (forall a b c : K, keq a b = true -> keq b c = true -> keq a c = true) ->
    (forall (a b : K) (s : Z), keq a b = true -> hash a s = hash b s) ->
    forall (h : @ht K V) (k : K) (h' : @ht K V) (r : option ht_entry) (k' : K),
    ht_inv keq hash h ->
    ht_remove keq hash h k = Ok (h', r) ->
    ht_inv keq hash h' /\
    r = hts_get keq k (ht_entries h) /\
    ht_get keq hash h' k' = (if keq k' k then Ok None else ht_get keq hash h k') /\
    ht_num_keys h' = match r with Some _ => ht_num_keys h - 1 | None => ht_num_keys h end.
Proof. exact @ht_get_after_remove. Qed.
Print Assumptions C19_ht_remove.

(* ares_htable_all_buckets returns exactly the bindings: no key twice, num_keys many, and
   get of any key is the lookup in that list *)
Theorem C19_ht_iteration :
  forall (K V : Type) (keq : K -> K -> bool) (hash : K -> Z -> Z),
    (forall (a b : K) (s : Z), keq a b = true -> hash a s = hash b s) ->
    forall (h : @ht K V) (l : list ht_entry),
    ht_inv keq hash h ->
    ht_all_buckets true h = Ok (Some l) ->
    l = ht_entries h /\ ht_nodup keq l /\ length l = ht_num_keys h /\
    (forall k : K, ht_get keq hash h k = Ok (hts_get keq k l)).
Proof. exact @ht_all_buckets_bindings. Qed.
Print Assumptions C19_ht_iteration.

(* the pre-allocated list pool always suffices: under the invariant ares_htable_expand ends
   normally (never Err HT_POOL_EXHAUSTED, never UB) *)
Theorem C19_ht_expand_pool_suffices :
  forall (K V : Type) (keq : K -> K -> bool) (hash : K -> Z -> Z),
    (forall a b : K, keq a b = keq b a) ->
    forall (o : list bool) (h : @ht K V),
    ht_inv keq hash h ->
    exists (h' : @ht K V) (ok : bool) (o' : list bool), ht_expand hash o h = Ok (h', ok, o').
Proof. exact @ht_expand_pool_suffices. Qed.
Print Assumptions C19_ht_expand_pool_suffices.

(* the counting argument itself: a pool of at least sum (len - 1) lists is never exhausted *)
Theorem C19_ht_rehash_pool_suffices :
  forall (K V : Type) (hash : K -> Z -> Z) (n : nat) (seed : Z)
         (bs nb : list (@ht_bucket K V)) (pool coll : nat),
    ht_acc_ok hash (2 ^ n) seed nb coll ->
    ht_coll_of bs <= pool ->
    ht_rehash hash (2 ^ n) seed bs nb pool coll <> Err HT_POOL_EXHAUSTED.
Proof. exact @ht_rehash_pool_suffices. Qed.
Print Assumptions C19_ht_rehash_pool_suffices.

(* C14 atomicity: a refused request among those the growth makes leaves the table exactly as
   it was (any table, no invariant needed) ... *)
Theorem C19_ht_expand_alloc_fail_atomic :
  forall (K V : Type) (hash : K -> Z -> Z) (o : list bool) (h : @ht K V),
    In false (firstn (ht_expand_requests h) o) ->
    exists o' : list bool, ht_expand hash o h = Ok (h, false, o').
Proof. exact @ht_expand_alloc_fail_atomic. Qed.
Print Assumptions C19_ht_expand_alloc_fail_atomic.

(* ... and the insert that needed the growth returns ARES_FALSE without inserting *)
Theorem C19_ht_insert_growth_fail_atomic :
  forall (K V : Type) (keq : K -> K -> bool) (hash : K -> Z -> Z),
    (forall a b : K, keq a b = keq b a) ->
    (forall a b c : K, keq a b = true -> keq b c = true -> keq a c = true) ->
    (forall (a b : K) (s : Z), keq a b = true -> hash a s = hash b s) ->
    forall (o : list bool) (h : @ht K V) (e : K * V),
    ht_inv keq hash h ->
    hts_get keq (fst e) (ht_entries h) = None ->
    ht_should_expand h = true ->
    In false (firstn (ht_expand_requests h) o) ->
    ht_insert keq hash o h e = Ok (h, HtFailed).
Proof. exact @ht_insert_growth_fail_atomic. Qed.
Print Assumptions C19_ht_insert_growth_fail_atomic.

(* C14 atomicity: any failed insert leaves the map, every lookup and the count unchanged,
   keeps the invariant, and happens only when the allocator refused a request *)
Theorem C19_ht_insert_alloc_fail_atomic :
  forall (K V : Type) (keq : K -> K -> bool) (hash : K -> Z -> Z),
    (forall a b : K, keq a b = keq b a) ->
    (forall a b c : K, keq a b = true -> keq b c = true -> keq a c = true) ->
    (forall (a b : K) (s : Z), keq a b = true -> hash a s = hash b s) ->
    forall (o : list bool) (h : @ht K V) (e : ht_entry) (h' : @ht K V),
    ht_inv keq hash h ->
    ht_insert keq hash o h e = Ok (h', HtFailed) ->
    ht_inv keq hash h' /\
    Permutation (ht_entries h') (ht_entries h) /\
    In false o /\
    (forall k : K, ht_get keq hash h' k = ht_get keq hash h k) /\
    ht_num_keys h' = ht_num_keys h.
Proof. exact @ht_insert_alloc_fail_atomic. Qed.
Print Assumptions C19_ht_insert_alloc_fail_atomic.

(* typed wrappers: numeric keys compared with == (szvp, asvp, vpvp, vpstr): ANY hash function *)
Theorem C19_ht_szvp_run_refines :
  forall (hash : Z -> Z -> Z) (seed : Z) (ops : list (@ht_op Z Z)),
  exists tr, ht_run_model ht_szvp_keq hash 0%Z seed ops = Ok tr /\
    Forall2 ht_obs_eq tr (ht_run_spec ht_szvp_keq 0%Z ops (map (@ht_obs_ok Z Z) tr)) /\
    ht_justified ops tr.
Proof. exact ht_szvp_run_refines. Qed.
Print Assumptions C19_ht_szvp_run_refines.

(* case-insensitive string keys (strvp, dict): any hash function that ignores case ... *)
Theorem C19_ht_strvp_run_refines :
  forall (hash : list Z -> Z -> Z) (seed : Z) (ops : list (@ht_op (list Z) Z)),
  (forall a b s, ht_strcaseeq a b = true -> hash a s = hash b s) ->
  exists tr, ht_run_model ht_strcaseeq hash 0%Z seed ops = Ok tr /\
    Forall2 ht_obs_eq tr (ht_run_spec ht_strcaseeq 0%Z ops (map (@ht_obs_ok (list Z) Z) tr)) /\
    ht_justified ops tr.
Proof. exact ht_strvp_run_refines. Qed.
Print Assumptions C19_ht_strvp_run_refines.

(* ... in particular the library's ares_htable_hash_FNV1a_casecmp *)
Theorem C19_ht_strvp_run_refines_fnv :
  forall (seed : Z) (ops : list (@ht_op (list Z) Z)),
  exists tr, ht_run_model ht_strcaseeq ht_fnv1a_casecmp 0%Z seed ops = Ok tr /\
    Forall2 ht_obs_eq tr (ht_run_spec ht_strcaseeq 0%Z ops (map (@ht_obs_ok (list Z) Z) tr)) /\
    ht_justified ops tr.
Proof. exact ht_strvp_run_refines_fnv. Qed.
Print Assumptions C19_ht_strvp_run_refines_fnv.

(* the main statement with literal equality: return values, freed entries, get results,
   counts and SORTED iteration of the model run equal those of the specification run, for
   any total order [leb] on the entries used for sorting *)
Theorem C19_ht_run_refines_sorted :
  forall (K V : Type) (keq : K -> K -> bool) (hash : K -> Z -> Z)
         (leb : @ht_entry K V -> @ht_entry K V -> bool) (vnull : V) (seed : Z) (ops : list (@ht_op K V)),
    (forall a, keq a a = true) -> (forall a b, keq a b = keq b a) ->
    (forall a b c, keq a b = true -> keq b c = true -> keq a c = true) ->
    (forall a b s, keq a b = true -> hash a s = hash b s) ->
    (forall a b, leb a b = true \/ leb b a = true) ->
    (forall a b c, leb a b = true -> leb b c = true -> leb a c = true) ->
    (forall a b, leb a b = true -> leb b a = true -> a = b) ->
    Forall (fun op => ~ ht_op_can_fail op) ops ->
    exists tr, ht_run_model keq hash vnull seed ops = Ok tr /\
      map (ht_obs_canon (ht_sort leb)) tr =
      map (ht_obs_canon (ht_sort leb)) (ht_run_spec keq vnull ops []).
Proof. exact @ht_run_refines_sorted. Qed.
Print Assumptions C19_ht_run_refines_sorted.

(* instance: numeric keys and values sorted by key then value, ANY hash function *)
Theorem C19_ht_szvp_run_refines_sorted :
  forall (hash : Z -> Z -> Z) (seed : Z) (ops : list (@ht_op Z Z)),
    Forall (fun op => ~ ht_op_can_fail op) ops ->
    exists tr, ht_run_model ht_szvp_keq hash 0%Z seed ops = Ok tr /\
      map (ht_obs_canon (ht_sort ht_zz_leb)) tr =
      map (ht_obs_canon (ht_sort ht_zz_leb)) (ht_run_spec ht_szvp_keq 0%Z ops []).
Proof. exact ht_szvp_run_refines_sorted. Qed.
Print Assumptions C19_ht_szvp_run_refines_sorted.

(* ---- the byte buffer (src/lib/str/ares_buf.c): coq/Dsa/Buf.v, Buf_proofs.v, Buf_split_props.v ---- *)
From CAres.Dsa Require Import Buf Buf_proofs Buf_split_props.
Local Open Scope Z_scope.

(* MAIN: for every operation sequence on a freshly created buffer (operations = the calls of
   the C API, with their allocation oracles), the model run - stopped at the first call outside
   the caller contract - never is UB, never runs out of fuel, and every observation (status,
   outputs, ares_buf_len, position, tag length, all remaining bytes) is one the byte-queue
   specification allows. *)
Theorem C19_buf_bytes : forall junk ops,
  (forall i, 0 <= junk i < 256) -> Forall buf_op_ok ops ->
  exists tr, buf_run_checked junk buf_empty ops = Ok tr /\ bufs_accepts [bufs_create] ops tr = true.
Proof. exact buf_run_refines. Qed.
Print Assumptions C19_buf_bytes.

(* one step: invariant preserved, never UB, result among the alternatives of the specification *)
Theorem C19_buf_step_refines : forall junk b op, (forall i, 0 <= junk i < 256) ->
  buf_inv b -> buf_bytes_ok (cb_mem b) -> buf_op_ok op -> bufs_contract (buf_abs b) op = true ->
  exists o b', buf_step junk b op = Ok (o, b') /\ buf_inv b' /\ buf_bytes_ok (cb_mem b') /\
               In (o, buf_abs b') (bufs_alts (buf_abs b) op).
Proof. exact buf_step_refines. Qed.
Print Assumptions C19_buf_step_refines.

Theorem C19_buf_observe_refines : forall b, buf_inv b -> buf_observe b = Ok (bufs_view (buf_abs b)).
Proof. exact buf_observe_refines. Qed.
Print Assumptions C19_buf_observe_refines.

(* append: exactly the bytes at the back, or ENOMEM (only when the allocator refuses) with the
   abstract value unchanged *)
Theorem C19_buf_append_refines : forall junk ok b bytes,
  buf_inv b -> buf_zlen bytes < BUF_ALLOC_LIMIT ->
  exists st b', buf_append junk ok b bytes = Ok (st, b') /\ buf_inv b' /\
    In (st, buf_abs b') (bufs_append_alts (buf_abs b) bytes) /\
    ((forall i, 0 <= junk i < 256) -> buf_bytes_ok (cb_mem b) -> buf_bytes_ok bytes -> buf_bytes_ok (cb_mem b')) /\
    (st = ARES_ENOMEM -> ok = false \/ BUF_ALLOC_LIMIT <= 2 * (cb_dlen b + buf_zlen bytes + 1)).
Proof. exact buf_append_refines. Qed.
Print Assumptions C19_buf_append_refines.

Theorem C19_buf_append_total : forall junk b bytes,
  buf_inv b -> buf_not_const b -> cb_dlen b + buf_zlen bytes + 1 < 2 ^ 60 ->
  exists b', buf_append junk true b bytes = Ok (ARES_SUCCESS, b') /\
             buf_remaining b' = buf_remaining b ++ bytes.
Proof. exact buf_append_total. Qed.
Print Assumptions C19_buf_append_total.

(* C14, container level *)
Theorem C19_buf_append_alloc_fail_atomic : forall junk ok b bytes st b',
  buf_inv b -> buf_zlen bytes < BUF_ALLOC_LIMIT ->
  buf_append junk ok b bytes = Ok (st, b') -> st = ARES_ENOMEM ->
  buf_inv b' /\ buf_remaining b' = buf_remaining b /\ bufs_tagged (buf_abs b') = bufs_tagged (buf_abs b).
Proof. exact buf_append_alloc_fail_atomic. Qed.
Print Assumptions C19_buf_append_alloc_fail_atomic.

Theorem C19_buf_ensure_space_alloc_fail_atomic : forall junk ok b n st b',
  buf_inv b -> 0 <= n < BUF_ALLOC_LIMIT ->
  buf_ensure_space junk ok b n = Ok (st, b') -> st = ARES_ENOMEM ->
  buf_inv b' /\ buf_remaining b' = buf_remaining b /\ bufs_tagged (buf_abs b') = bufs_tagged (buf_abs b).
Proof. exact buf_ensure_space_alloc_fail_atomic. Qed.
Print Assumptions C19_buf_ensure_space_alloc_fail_atomic.

Theorem C19_buf_append_be16_alloc_fail_atomic : forall junk ok b v st b',
  buf_inv b -> buf_append_be16 junk ok b v = Ok (st, b') -> st = ARES_ENOMEM ->
  buf_inv b' /\ buf_remaining b' = buf_remaining b /\ bufs_tagged (buf_abs b') = bufs_tagged (buf_abs b).
Proof. exact buf_append_be16_alloc_fail_atomic. Qed.
Print Assumptions C19_buf_append_be16_alloc_fail_atomic.

(* the code before fixes/C19-buf-append-be-atomic.patch was NOT atomic (refutation witness) *)
Theorem C19_buf_append_be16_unfixed_refuted :
  exists b b', buf_inv b /\
    buf_append_be16_unfixed (fun _ => 0) true false b 4660 = Ok (ARES_ENOMEM, b') /\
    buf_remaining b' = buf_remaining b ++ [18] /\ buf_remaining b' <> buf_remaining b.
Proof. exact buf_append_be16_unfixed_not_atomic. Qed.
Print Assumptions C19_buf_append_be16_unfixed_refuted.

(* fetches *)
Theorem C19_buf_fetch_bytes_refines : forall b n, buf_inv b -> 0 <= n ->
  exists st b' out, buf_fetch_bytes b n = Ok (st, b', out) /\ buf_inv b' /\
                    (st, buf_abs b', out) = bufs_fetch_bytes (buf_abs b) n.
Proof. exact buf_fetch_bytes_refines. Qed.
Print Assumptions C19_buf_fetch_bytes_refines.

Theorem C19_buf_fetch_be16_refines : forall b, buf_inv b -> buf_bytes_ok (buf_remaining b) ->
  exists st b' v, buf_fetch_be16 b = Ok (st, b', v) /\ buf_inv b' /\
                  (st, buf_abs b', v) = bufs_fetch_be 2 (buf_abs b).
Proof. exact buf_fetch_be16_refines. Qed.
Print Assumptions C19_buf_fetch_be16_refines.

Theorem C19_buf_fetch_be32_refines : forall b, buf_inv b -> buf_bytes_ok (buf_remaining b) ->
  exists st b' v, buf_fetch_be32 b = Ok (st, b', v) /\ buf_inv b' /\
                  (st, buf_abs b', v) = bufs_fetch_be 4 (buf_abs b).
Proof. exact buf_fetch_be32_refines. Qed.
Print Assumptions C19_buf_fetch_be32_refines.

Theorem C19_buf_be_roundtrip : forall k v, 0 <= v ->
  bufs_be_value 0 (bufs_be_bytes k v) = v mod 256 ^ Z.of_nat k.
Proof. exact bufs_be_roundtrip. Qed.
Print Assumptions C19_buf_be_roundtrip.

Theorem C19_buf_fetch_bytes_boundary : forall s, 0 < bufs_len s ->
  bufs_fetch_bytes s (bufs_len s) = (ARES_SUCCESS, mkBufSpec (bs_pre s ++ bs_post s) [] (bs_tag s) (bs_const s), bs_post s) /\
  bufs_fetch_bytes s (bufs_len s + 1) = (ARES_EBADRESP, s, []).
Proof. exact bufs_fetch_bytes_boundary. Qed.
Print Assumptions C19_buf_fetch_bytes_boundary.

Theorem C19_buf_consume_refines : forall b n, buf_inv b -> 0 <= n ->
  exists st b', buf_consume b n = Ok (st, b') /\ buf_inv b' /\
                (st, buf_abs b') = bufs_consume (buf_abs b) n.
Proof. exact buf_consume_refines. Qed.
Print Assumptions C19_buf_consume_refines.

(* tag / rollback / reclaim *)
Theorem C19_buf_tag_rollback_refines : forall b, buf_inv b ->
  exists st b', buf_tag_rollback b = Ok (st, b') /\ buf_inv b' /\
                (st, buf_abs b') = bufs_tag_rollback (buf_abs b).
Proof. exact buf_tag_rollback_refines. Qed.
Print Assumptions C19_buf_tag_rollback_refines.

Theorem C19_buf_tag_advance_rollback : forall s n1 n2,
  0 <= n1 -> 0 <= n2 -> n1 + n2 <= bufs_len s ->
  snd (bufs_tag_rollback (bufs_advance (bufs_advance (bufs_tag s) n1) n2)) =
  mkBufSpec (bs_pre s) (bs_post s) None (bs_const s).
Proof. exact bufs_tag_advance_rollback. Qed.
Print Assumptions C19_buf_tag_advance_rollback.

Theorem C19_buf_tag_length_refines : forall b, buf_inv b -> buf_tag_length b = Ok (bufs_tag_length (buf_abs b)).
Proof. exact buf_tag_length_refines. Qed.
Print Assumptions C19_buf_tag_length_refines.

Theorem C19_buf_tag_fetch_bytes_refines : forall b cap, buf_inv b -> 0 <= cap ->
  exists r, buf_tag_fetch_bytes b cap = Ok r /\ In r (bufs_tag_fetch_bytes_alts (buf_abs b) cap).
Proof. exact buf_tag_fetch_bytes_refines. Qed.
Print Assumptions C19_buf_tag_fetch_bytes_refines.

Theorem C19_buf_reclaim_refines : forall b, buf_inv b ->
  exists b', buf_reclaim b = Ok b' /\ buf_inv b' /\ buf_abs b' = bufs_trim (buf_abs b) /\
             cb_alloc b' = cb_alloc b /\ cb_dlen b' <= cb_dlen b /\
             cb_hasdata b' = cb_hasdata b /\ cb_hasabuf b' = cb_hasabuf b /\
             (buf_bytes_ok (cb_mem b) -> buf_bytes_ok (cb_mem b')).
Proof. exact buf_reclaim_refines. Qed.
Print Assumptions C19_buf_reclaim_refines.

Theorem C19_buf_rollback_after_reclaim : forall s t, bs_tag s = Some t -> 0 <= t ->
  bs_post (snd (bufs_tag_rollback (bufs_trim s))) = bs_post (snd (bufs_tag_rollback s)) /\
  bufs_tagged (bufs_trim s) = bufs_tagged s /\ bs_post (bufs_trim s) = bs_post s.
Proof. exact bufs_rollback_after_trim. Qed.
Print Assumptions C19_buf_rollback_after_reclaim.

(* positions and lengths *)
Theorem C19_buf_set_position_refines : forall b idx, buf_inv b -> 0 <= idx ->
  bufs_set_position_contract (buf_abs b) idx = true ->
  exists st b', buf_set_position b idx = Ok (st, b') /\ buf_inv b' /\
                (st, buf_abs b') = bufs_set_position (buf_abs b) idx.
Proof. exact buf_set_position_refines. Qed.
Print Assumptions C19_buf_set_position_refines.

Theorem C19_buf_set_position_below_tag : forall b idx, buf_inv b -> cb_hasdata b = true ->
  cb_tag b <> BUF_SIZE_MAX -> 0 <= idx < cb_tag b ->
  exists b', buf_set_position b idx = Ok (ARES_SUCCESS, b') /\
    cb_off b' = idx /\ cb_tag b' = cb_tag b /\ ~ buf_inv b' /\
    buf_tag_length b' = Ok (2 ^ 64 - (cb_tag b - idx)) /\
    (forall cap, buf_tag_fetch_bytes b' cap =
                 if cap <? 2 ^ 64 - (cb_tag b - idx) then Ok (ARES_EFORMERR, []) else UB OutOfBounds).
Proof. exact buf_set_position_below_tag. Qed.
Print Assumptions C19_buf_set_position_below_tag.

Theorem C19_buf_set_length_refines : forall b len fill, buf_inv b -> 0 <= len ->
  exists st b', buf_set_length_fill b len fill = Ok (st, b') /\ buf_inv b' /\
    In (st, buf_abs b') (bufs_set_length_alts (buf_abs b) len fill) /\
    (0 <= fill < 256 -> buf_bytes_ok (cb_mem b) -> buf_bytes_ok (cb_mem b')) /\
    (st = ARES_SUCCESS <-> (bs_const (buf_abs b) = false /\ len < cb_alloc b - cb_off b)).
Proof. exact buf_set_length_fill_refines. Qed.
Print Assumptions C19_buf_set_length_refines.

(* finish *)
Theorem C19_buf_finish_bin_exact : forall junk ok b, buf_inv b -> bs_const (buf_abs b) = false ->
  exists r b', buf_finish_bin junk ok b = Ok (r, b') /\
    match r with
    | Some bytes => bytes = bufs_tagged (buf_abs b) ++ buf_remaining b
    | None => buf_remaining b = [] /\ ok = false \/ buf_remaining b = []
    end.
Proof. exact buf_finish_bin_exact. Qed.
Print Assumptions C19_buf_finish_bin_exact.

(* split *)
Theorem C19_buf_split_refines : forall ok_arr b delims flags max_sections,
  buf_inv b -> 0 <= flags -> 0 <= max_sections ->
  exists st b' pieces, buf_split ok_arr (fun _ => true) b delims flags max_sections = Ok (st, b', pieces) /\
    buf_inv b' /\ cb_mem b' = cb_mem b /\
    In (mkBufObs st [buf_zlen pieces] pieces, buf_abs b') (bufs_split_alts ok_arr (buf_abs b) delims flags max_sections).
Proof. exact buf_split_refines. Qed.
Print Assumptions C19_buf_split_refines.

Theorem C19_buf_split_fields : forall delims flags,
  buf_flag flags ARES_BUF_SPLIT_KEEP_DELIMS = false -> forall l,
  fst (bufs_split delims flags 0 l) =
  fold_left (fun a f => bufs_split_emit flags a (rev f)) (buf_fields (buf_in_charset delims) l) [].
Proof. exact bufs_split_fields. Qed.
Print Assumptions C19_buf_split_fields.

Theorem C19_buf_split_noflags : forall delims l,
  fst (bufs_split delims ARES_BUF_SPLIT_NONE 0 l) = filter buf_nonempty (buf_fields (buf_in_charset delims) l).
Proof. exact bufs_split_noflags. Qed.
Print Assumptions C19_buf_split_noflags.

Theorem C19_buf_split_partition : forall delims l,
  exists ds, Forall (fun d => buf_in_charset delims d = true) ds /\
             length (fst (bufs_split delims ARES_BUF_SPLIT_ALLOW_BLANK 0 l)) = S (length ds) /\
             buf_interleave (fst (bufs_split delims ARES_BUF_SPLIT_ALLOW_BLANK 0 l)) ds = l /\
             Forall (Forall (fun c => buf_in_charset delims c = false)) (fst (bufs_split delims ARES_BUF_SPLIT_ALLOW_BLANK 0 l)).
Proof. exact bufs_split_partition. Qed.
Print Assumptions C19_buf_split_partition.

Theorem C19_buf_split_trim : forall delims l,
  fst (bufs_split delims ARES_BUF_SPLIT_TRIM 0 l) =
  filter buf_nonempty (map buf_trim (buf_fields (buf_in_charset delims) l)).
Proof. exact bufs_split_trim. Qed.
Print Assumptions C19_buf_split_trim.

Theorem C19_buf_split_no_duplicates : forall delims flags max_sections l,
  buf_flag flags ARES_BUF_SPLIT_NO_DUPLICATES = true ->
  buf_nodup_by (buf_piece_eqb flags) (fst (bufs_split delims flags max_sections l)).
Proof. exact bufs_split_no_duplicates. Qed.
Print Assumptions C19_buf_split_no_duplicates.
Local Close Scope Z_scope.

(* ---- the hand model of the byte-level reads agrees with the text generated from the C
   source (static helpers inlined, data region as index -> byte): same status, cursor, value ---- *)
From CAres.Dsa Require Import Buf_gen_agree.
From CAres.Gen Require Import LeafFns.

Theorem C19_buf_fetch_be16_agrees_generated : forall b old,
  buf_inv b -> buf_bytes_ok (buf_remaining b) ->
  exists st b' v v',
    buf_fetch_be16 b = Ok (st, b', v) /\
    c_ares_buf_fetch_be16 (b2z (cb_hasdata b)) (cb_dlen b) (cb_off b) (buf_memf b) old
      = Ok (st, cb_off b', v') /\
    (st = ARES_SUCCESS -> v' = v) /\ (st <> ARES_SUCCESS -> v' = old /\ b' = b).
Proof. exact buf_fetch_be16_agrees_generated. Qed.
Print Assumptions C19_buf_fetch_be16_agrees_generated.

Theorem C19_buf_peek_byte_agrees_generated : forall b old,
  buf_inv b -> buf_bytes_ok (buf_remaining b) ->
  exists st v v',
    buf_peek_byte b = Ok (st, v) /\
    c_ares_buf_peek_byte (b2z (cb_hasdata b)) (cb_dlen b) (cb_off b) (buf_memf b) old = Ok (st, v') /\
    (st = ARES_SUCCESS -> v' = v) /\ (st <> ARES_SUCCESS -> v' = old).
Proof. exact buf_peek_byte_agrees_generated. Qed.
Print Assumptions C19_buf_peek_byte_agrees_generated.

Theorem C19_buf_fetch_bytes_agrees_generated : forall b len,
  buf_inv b -> (0 <= len < 2 ^ 62)%Z ->
  exists st b' bytes,
    buf_fetch_bytes b len = Ok (st, b', bytes) /\
    c_ares_buf_fetch_bytes len (b2z (cb_hasdata b)) (cb_dlen b) (cb_off b) (buf_memf b)
      = Ok (st, cb_off b').
Proof. exact buf_fetch_bytes_agrees_generated. Qed.
Print Assumptions C19_buf_fetch_bytes_agrees_generated.

(* ---- array / skip list: hand model = text generated from the C source, where the function
   fits the translator (gen/leaf.d/C19_dsa.txt lists what does not and why) ---- *)
From CAres.Dsa Require Import Dsa_gen_agree SList.

(* ares_array_set_size: same status and final alloc_cnt for every size, array and allocator
   answer (ares_round_up_pow2's value as the model computes it; newptr = ares_realloc_zero's
   non-NULL answer) *)
Theorem C19_array_set_size_agrees_generated : forall (ok : bool) (a : arr) (size : nat) (msz ptr newptr : Z),
  newptr <> 0%Z ->
  exists st alloc' ptr',
    c_ares_array_set_size (Z.of_nat size) (Z.of_nat (a_cnt a)) (Z.of_nat (round_up_pow2 size))
                          (Z.of_nat (alloc_cnt a)) msz (if ok then newptr else 0%Z) ptr
      = Ok (st, alloc', ptr') /\
    arr_status (arr_set_size ok a size) = Some st /\
    alloc' = Z.of_nat (match arr_set_size ok a size with Ok a' => alloc_cnt a' | _ => alloc_cnt a end) /\
    a_cnt (match arr_set_size ok a size with Ok a' => a' | _ => a end) = a_cnt a.
Proof. exact arr_set_size_agrees_generated. Qed.
Print Assumptions C19_array_set_size_agrees_generated.

Theorem C19_array_remove_last_agrees_generated : forall a : arr,
  arr_status (arr_remove_at a (a_cnt a - 1)) <> None ->
  exists st,
    arr_status (arr_remove_last a) = Some st /\
    forall st_at, arr_status (arr_remove_at a (a_cnt a - 1)) = Some st_at ->
      c_ares_array_remove_last (Z.of_nat (arr_len a)) st_at = Ok st.
Proof. exact arr_remove_last_agrees_generated. Qed.
Print Assumptions C19_array_remove_last_agrees_generated.

(* ares_slist_max_level, the bound on the level a new skip-list node may get *)
Theorem C19_slist_max_level_agrees_generated : forall cnt levels : nat,
  (Z.of_nat cnt + 1 < 2 ^ 64)%Z ->
  c_ares_slist_max_level (Z.of_nat cnt) (Z.of_nat levels)
                         (Z.of_nat (sl_round_up_pow2 (cnt + 1)))
                         (Z.of_nat (sl_log2 (sl_round_up_pow2 (cnt + 1))))
  = Ok (Z.of_nat (sl_max_level cnt levels)).
Proof. exact sl_max_level_agrees_generated. Qed.
Print Assumptions C19_slist_max_level_agrees_generated.

(* ======================================================================================
   byte buffer, round 2 (coq/Dsa/Buf_split_limit.v): ares_buf_split with a section limit and
   with KEEP_DELIMS, against ordinary field splitting
   ====================================================================================== *)
From CAres.Dsa Require Import Buf_split_limit.
Local Open Scope Z_scope.

(* what ares_buf_split returns for a non-empty input is the reference machine's piece list of
   the remaining bytes (so the closed forms below are statements about the code-shaped model) *)
Theorem C19_buf_split_pieces_machine : forall b delims flags max_sections,
  buf_inv b -> 0 <= flags -> 0 <= max_sections -> 0 < buf_zlen delims -> buf_remaining b <> [] ->
  exists b', buf_split true (fun _ => true) b delims flags max_sections =
             Ok (ARES_SUCCESS, b', fst (bufs_split delims flags max_sections (buf_remaining b))) /\
             buf_inv b' /\ buf_remaining b' = [] /\ buf_consumed b' = buf_consumed b ++ buf_remaining b.
Proof. exact buf_split_pieces_machine. Qed.
Print Assumptions C19_buf_split_pieces_machine.

(* (a) no KEEP_DELIMS, any limit, any other flags: the trim / blank / duplicate filter applied to
   the fields in order; as soon as max_sections - 1 pieces have been KEPT, the whole unsplit
   rest of the input that starts at the next field (delimiters included) is filtered as one
   last piece ([buf_split_limit_spec]; [buf_fields_suffix] pairs every field with that rest) *)
Theorem C19_buf_split_limit_fields : forall delims flags max_sections,
  buf_flag flags ARES_BUF_SPLIT_KEEP_DELIMS = false ->
  forall l, fst (bufs_split delims flags max_sections l) =
            buf_split_limit_spec flags max_sections [] (buf_fields_suffix (buf_in_charset delims) l).
Proof. exact bufs_split_limit_fields. Qed.
Print Assumptions C19_buf_split_limit_fields.

Theorem C19_buf_fields_suffix_fst : forall isd l, map fst (buf_fields_suffix isd l) = buf_fields isd l.
Proof. exact buf_fields_suffix_fst. Qed.
Print Assumptions C19_buf_fields_suffix_fst.

(* the rest paired with field i = fields i, i+1, ... re-joined with the delimiters between them *)
Theorem C19_buf_fields_suffix_rest : forall isd l cur,
  exists ds, Forall (fun d => isd d = true) ds /\
    length (buf_fields_suffix_go isd cur l) = S (length ds) /\
    forall i, (i < length (buf_fields_suffix_go isd cur l))%nat ->
      snd (nth i (buf_fields_suffix_go isd cur l) ([], [])) =
      buf_interleave (skipn i (buf_fields_go isd cur l)) (skipn i ds).
Proof. exact buf_fields_suffix_go_rest. Qed.
Print Assumptions C19_buf_fields_suffix_rest.

(* (a) ALLOW_BLANK with a limit n: at most n pieces, interleaved with the removed delimiters
   they give back the input; only the last piece may contain delimiters, and only when the
   limit was reached *)
Theorem C19_buf_split_limit_partition : forall delims n, 0 < n < 2 ^ 64 -> forall l,
  let pieces := fst (bufs_split delims ARES_BUF_SPLIT_ALLOW_BLANK n l) in
  exists ds, Forall (fun d => buf_in_charset delims d = true) ds /\ length pieces = S (length ds) /\
             buf_interleave pieces ds = l /\ buf_zlen pieces <= n /\
             Forall (Forall (fun c => buf_in_charset delims c = false)) (removelast pieces) /\
             (buf_zlen pieces < n -> Forall (Forall (fun c => buf_in_charset delims c = false)) pieces).
Proof. exact bufs_split_limit_partition. Qed.
Print Assumptions C19_buf_split_limit_partition.

(* (b) KEEP_DELIMS, no limit, any other flags: the filter folded over the KEEP_DELIMS sections *)
Theorem C19_buf_split_keep_fields : forall delims flags l,
  buf_flag flags ARES_BUF_SPLIT_KEEP_DELIMS = true ->
  fst (bufs_split delims flags 0 l) =
  fold_left (fun a f => bufs_split_emit flags a (rev f)) (buf_fields_keep (buf_in_charset delims) l) [].
Proof. exact bufs_split_keep_fields. Qed.
Print Assumptions C19_buf_split_keep_fields.

(* the KEEP_DELIMS sections: concatenated they are the input; they are the ordinary fields, each
   one after the first with the delimiter that preceded it in front *)
Theorem C19_buf_fields_keep_spec : forall isd l,
  concat (buf_fields_keep isd l) = l /\
  exists ds, Forall (fun d => isd d = true) ds /\
    length (tl (buf_fields isd l)) = length ds /\
    buf_fields_keep isd l = hd [] (buf_fields isd l) ::
                            map (fun df => fst df :: snd df) (combine ds (tl (buf_fields isd l))).
Proof. exact buf_fields_keep_spec. Qed.
Print Assumptions C19_buf_fields_keep_spec.

(* (b) KEEP_DELIMS without trim / duplicate flags, any limit, with or without ALLOW_BLANK: the
   plain concatenation of the pieces is the input; every piece after the first begins with a
   delimiter (so it is never blank: the header comment of ares_buf.h is inaccurate there) *)
Theorem C19_buf_split_keep_concat : forall delims flags max_sections,
  buf_flag flags ARES_BUF_SPLIT_KEEP_DELIMS = true ->
  buf_flag flags ARES_BUF_SPLIT_LTRIM = false -> buf_flag flags ARES_BUF_SPLIT_RTRIM = false ->
  buf_flag flags ARES_BUF_SPLIT_NO_DUPLICATES = false ->
  forall l, concat (fst (bufs_split delims flags max_sections l)) = l /\
            Forall (buf_starts_delim (buf_in_charset delims)) (tl (fst (bufs_split delims flags max_sections l))).
Proof. exact bufs_split_keep_concat. Qed.
Print Assumptions C19_buf_split_keep_concat.

(* (b) KEEP_DELIMS with LTRIM / RTRIM: trimming removes whitespace only (possibly the kept
   delimiter itself); after deleting all whitespace the concatenation equals the input *)
Theorem C19_buf_split_keep_trim_concat : forall delims flags max_sections,
  buf_flag flags ARES_BUF_SPLIT_NO_DUPLICATES = false -> forall l,
  buf_flag flags ARES_BUF_SPLIT_KEEP_DELIMS = true ->
  filter buf_nonws (concat (fst (bufs_split delims flags max_sections l))) = filter buf_nonws l.
Proof. exact bufs_split_keep_trim_concat. Qed.
Print Assumptions C19_buf_split_keep_trim_concat.

(* ======================================================================================
   byte buffer, round 2: allocation failure in the MIDDLE of ares_buf_split; append_num_dec /
   _hex; parse_dns_binstr / _str; agreement with the Wire read-side model
   (coq/Dsa/Buf_proofs.v, Buf_num_props.v, Buf_wire_agree.v)
   ====================================================================================== *)
From CAres.Dsa Require Import Buf_num_props Buf_wire_agree.
From CAres.Wire Require Cursor.

(* ares_buf_split under ANY behaviour of the allocator ([okp i] = the requests for the i-th kept
   piece are granted).  Either no request for a piece that the split produces is refused: same
   result as the run in which nothing is refused.  Or the first k pieces get their memory, a
   request for piece k is refused: ARES_ENOMEM, NO pieces (the finished ones are destroyed with
   the array).  Then memory, data_len, alloc_buf_len and the pointers are unchanged ([buf_at]);
   NOT restored: the cursor (it stays behind the section of piece k: o) and the tag (overwritten
   with the start of that section: t; it is overwritten on success as well).  The cursor only
   moved forward inside the input: remaining bytes = a suffix of the previous remaining bytes.
   Never UB / out of fuel (the result is always Ok). *)
Theorem C19_buf_split_okp : forall okp b delims flags max_sections,
  buf_inv b -> 0 <= flags -> 0 <= max_sections ->
  exists st b' pieces,
    buf_split true (fun _ => true) b delims flags max_sections = Ok (st, b', pieces) /\
    ( (buf_split true okp b delims flags max_sections = Ok (st, b', pieces) /\
       forall i, (i < length pieces)%nat -> okp i = true)
      \/
      (exists k o t, (k < length pieces)%nat /\ okp k = false /\ (forall i, (i < k)%nat -> okp i = true) /\
         buf_split true okp b delims flags max_sections = Ok (ARES_ENOMEM, buf_at b o t, []) /\
         cb_off b <= t <= o /\ o <= cb_dlen b /\ buf_inv (buf_at b o t) /\
         buf_remaining (buf_at b o t) = buf_drop (o - cb_off b) (buf_remaining b) /\
         buf_consumed (buf_at b o t) = buf_consumed b ++ buf_take (o - cb_off b) (buf_remaining b)) ).
Proof. exact buf_split_okp. Qed.
Print Assumptions C19_buf_split_okp.

(* the operation of the tie ("!<n>sx": exactly the n-th allocation request of the call is
   refused; request 0 = the array, then per kept piece its ares_buf_t and - pieces 0, 4, 8, 16,
   ... - the growth of the array) against the byte-queue specification *)
Theorem C19_buf_split_fail_at_refines : forall n b delims flags max_sections,
  buf_inv b -> 0 <= n -> 0 <= flags -> 0 <= max_sections ->
  exists st b' pieces, buf_split_fail_at n b delims flags max_sections = Ok (st, b', pieces) /\
    buf_inv b' /\ cb_mem b' = cb_mem b /\
    In (mkBufObs st [buf_zlen pieces] pieces, buf_abs b') (bufs_split_fail_alts n (buf_abs b) delims flags max_sections).
Proof. exact buf_split_fail_at_refines. Qed.
Print Assumptions C19_buf_split_fail_at_refines.

(* ares_buf_append_num_dec / _hex (with fixes/C19-buf-append-num-atomic.patch and
   -num-width.patch) ARE ares_buf_append of the digits of num: [bufs_num_bytes] = the len least
   significant digits (div/mod recursion [bufs_num_digits]), most significant first, i.e. zero
   padded on the left when num has fewer digits, its LEADING digits cut off when it has more;
   len = 0: the natural width ([bufs_num_width], at least 1).  Hence every theorem about
   ares_buf_append (refinement, C19_buf_append_total, ENOMEM atomicity) carries over. *)
Theorem C19_buf_append_num_dec_eq : forall junk ok b num len,
  buf_inv b -> 0 <= num < 2 ^ 64 -> 0 <= len < BUF_ALLOC_LIMIT ->
  buf_append_num_dec junk ok b num len = buf_append junk ok b (bufs_num_bytes 10 bufs_dec_char num len).
Proof. exact buf_append_num_dec_eq. Qed.
Print Assumptions C19_buf_append_num_dec_eq.

Theorem C19_buf_append_num_hex_eq : forall junk ok b num len,
  buf_inv b -> 0 <= num < 2 ^ 64 -> 0 <= len < BUF_ALLOC_LIMIT ->
  buf_append_num_hex junk ok b num len = buf_append junk ok b (bufs_num_bytes 16 bufs_hex_char num len).
Proof. exact buf_append_num_hex_eq. Qed.
Print Assumptions C19_buf_append_num_hex_eq.

Theorem C19_buf_append_num_dec_total : forall junk b num len,
  buf_inv b -> buf_not_const b -> 0 <= num < 2 ^ 64 -> 0 <= len < 2 ^ 59 -> cb_dlen b < 2 ^ 59 ->
  exists b', buf_append_num_dec junk true b num len = Ok (ARES_SUCCESS, b') /\
             buf_remaining b' = buf_remaining b ++ bufs_num_bytes 10 bufs_dec_char num len.
Proof. exact buf_append_num_dec_total. Qed.
Print Assumptions C19_buf_append_num_dec_total.

Theorem C19_buf_append_num_hex_total : forall junk b num len,
  buf_inv b -> buf_not_const b -> 0 <= num < 2 ^ 64 -> 0 <= len < 2 ^ 59 -> cb_dlen b < 2 ^ 59 ->
  exists b', buf_append_num_hex junk true b num len = Ok (ARES_SUCCESS, b') /\
             buf_remaining b' = buf_remaining b ++ bufs_num_bytes 16 bufs_hex_char num len.
Proof. exact buf_append_num_hex_total. Qed.
Print Assumptions C19_buf_append_num_hex_total.

(* C14 container lemmas: ENOMEM leaves the byte queue and the tagged region unchanged *)
Theorem C19_buf_append_num_dec_alloc_fail_atomic : forall junk ok b num len st b',
  buf_inv b -> 0 <= num < 2 ^ 64 -> 0 <= len < BUF_ALLOC_LIMIT ->
  buf_append_num_dec junk ok b num len = Ok (st, b') -> st = ARES_ENOMEM ->
  buf_inv b' /\ buf_remaining b' = buf_remaining b /\ bufs_tagged (buf_abs b') = bufs_tagged (buf_abs b).
Proof. exact buf_append_num_dec_alloc_fail_atomic. Qed.
Print Assumptions C19_buf_append_num_dec_alloc_fail_atomic.

Theorem C19_buf_append_num_hex_alloc_fail_atomic : forall junk ok b num len st b',
  buf_inv b -> 0 <= num < 2 ^ 64 -> 0 <= len < BUF_ALLOC_LIMIT ->
  buf_append_num_hex junk ok b num len = Ok (st, b') -> st = ARES_ENOMEM ->
  buf_inv b' /\ buf_remaining b' = buf_remaining b /\ bufs_tagged (buf_abs b') = bufs_tagged (buf_abs b).
Proof. exact buf_append_num_hex_alloc_fail_atomic. Qed.
Print Assumptions C19_buf_append_num_hex_alloc_fail_atomic.

(* the code BEFORE the patches (refutation witnesses, reproduced on the real library by the
   corpus cases "!nd:12:0" with one byte of room, "nd:18446744073709551615:0", "nh:255:17") *)
Theorem C19_buf_append_num_dec_unfixed_refuted :
  exists b b', buf_inv b /\
    buf_append_num_dec_unfixed (fun _ => 0) (fun k => Nat.eqb k 0) b 12 0 = Ok (ARES_ENOMEM, b') /\
    buf_remaining b' = buf_remaining b ++ [49] /\ buf_remaining b' <> buf_remaining b.
Proof. exact buf_append_num_dec_unfixed_not_atomic. Qed.
Print Assumptions C19_buf_append_num_dec_unfixed_refuted.

Theorem C19_buf_append_num_dec_unfixed_digits_refuted :
  exists b', buf_append_num_dec_unfixed (fun _ => 0) (fun _ => true) buf_empty 18446744073709551615 0
             = Ok (ARES_EFORMERR, b') /\
             buf_remaining b' = [51; 55; 53; 50; 51; 53; 54; 50; 55; 54; 51; 51; 53; 56; 50; 50; 52; 50].
Proof. exact buf_append_num_dec_unfixed_wrong_digits. Qed.
Print Assumptions C19_buf_append_num_dec_unfixed_digits_refuted.

Theorem C19_buf_append_num_hex_unfixed_refuted :
  buf_append_num_hex_unfixed (fun _ => 0) (fun _ => true) buf_empty 255 17 = UB ShiftTooWide.
Proof. exact buf_append_num_hex_unfixed_ub. Qed.
Print Assumptions C19_buf_append_num_hex_unfixed_refuted.

(* ares_buf_parse_dns_binstr / _str (one length-prefixed character-string; with
   fixes/C19-buf-parse-binstr-enomem.patch): exactly the string bytes (+ terminator) and the
   cursor behind them, or the documented status; the specification [bufs_parse_binstr] says what
   stays consumed on failure (the length byte, once it has been read).  Never UB. *)
Theorem C19_buf_parse_dns_binstr_refines : forall junk ok1 ok2 b rl want validate,
  buf_inv b -> buf_bytes_ok (buf_remaining b) -> 0 <= rl < 2 ^ 64 ->
  exists st b' out, buf_parse_dns_binstr_int junk ok1 ok2 b rl want validate = Ok (st, b', out) /\
    buf_inv b' /\ cb_mem b' = cb_mem b /\
    (st, buf_abs b', out) = bufs_parse_binstr ok1 ok2 (buf_abs b) rl want validate.
Proof. exact buf_parse_dns_binstr_refines. Qed.
Print Assumptions C19_buf_parse_dns_binstr_refines.

(* the model of this container and the read-side model of the wire codec
   (CAres.Wire.Cursor.parse_dns_binstr) agree: same status, bytes, new offset *)
Theorem C19_buf_wire_binstr_agree : forall junk b c rl want vp,
  buf_inv b -> buf_cur_rel b c -> 0 <= rl < 2 ^ 64 ->
  exists st b' out,
    buf_parse_dns_binstr_int junk true true b rl want vp = Ok (st, b', out) /\
    match Cursor.parse_dns_binstr c rl want vp with
    | Ok (bytes, c') =>
      st = ARES_SUCCESS /\ out = (if want then Some (map Z.of_N bytes ++ [0]) else None) /\
      (want = false -> bytes = []) /\ cb_off b' = Cursor.c_off c' /\ buf_cur_rel b' c'
    | Err e => st = e /\ e <> ARES_SUCCESS /\ out = None
    | UB _ => False
    end.
Proof. exact buf_wire_binstr_agree. Qed.
Print Assumptions C19_buf_wire_binstr_agree.

Theorem C19_buf_cur_rel_of_bytes : forall bs : list N,
  Forall (fun x => (x < 256)%N) bs -> 0 < Z.of_nat (length bs) < BUF_ALLOC_LIMIT ->
  let b := mkBuf (map Z.of_N bs) (buf_zlen (map Z.of_N bs)) 0 0 BUF_SIZE_MAX true false in
  buf_create_const true (map Z.of_N bs) = Some b /\ buf_inv b /\ buf_cur_rel b (Cursor.cur_of_bytes bs).
Proof. exact buf_cur_rel_of_bytes. Qed.
Print Assumptions C19_buf_cur_rel_of_bytes.

(* the remaining tag_fetch variants (round 1 proofs, covered by C19_buf_bytes; listed here) *)
Theorem C19_buf_tag_fetch_string_refines : forall b cap, buf_inv b -> 0 <= cap ->
  exists r, buf_tag_fetch_string b cap = Ok r /\ In r (bufs_tag_fetch_string_alts (buf_abs b) cap).
Proof. exact buf_tag_fetch_string_refines. Qed.
Print Assumptions C19_buf_tag_fetch_string_refines.

Theorem C19_buf_tag_fetch_strdup_refines : forall ok b, buf_inv b ->
  exists r, buf_tag_fetch_strdup ok b = Ok r /\ In r (bufs_tag_fetch_strdup_alts ok (buf_abs b)).
Proof. exact buf_tag_fetch_strdup_refines. Qed.
Print Assumptions C19_buf_tag_fetch_strdup_refines.

Theorem C19_buf_tag_fetch_constbuf_refines : forall ok b, buf_inv b ->
  exists st nb, buf_tag_fetch_constbuf ok b = Ok (st, nb) /\
    In (st, match nb with None => [] | Some x => [buf_remaining x] end)
       (bufs_tag_fetch_constbuf_alts ok (buf_abs b)) /\
    match nb with None => True | Some x => buf_inv x end.
Proof. exact buf_tag_fetch_constbuf_refines. Qed.
Print Assumptions C19_buf_tag_fetch_constbuf_refines.

From CAres.Dsa Require Import Buf_gen_agree2.
Theorem C19_buf_fetch_be32_agrees_generated : forall b old,
  buf_inv b -> buf_bytes_ok (buf_remaining b) ->
  exists st b' v v',
    buf_fetch_be32 b = Ok (st, b', v) /\
    c_ares_buf_fetch_be32 (b2z (cb_hasdata b)) (cb_dlen b) (cb_off b) (buf_memf b) old
      = Ok (st, cb_off b', v') /\
    (st = ARES_SUCCESS -> v' = v) /\ (st <> ARES_SUCCESS -> v' = old /\ b' = b).
Proof. exact buf_fetch_be32_agrees_generated. Qed.
Print Assumptions C19_buf_fetch_be32_agrees_generated.

Theorem C19_buf_append_start_agrees_generated : forall junk ok b len ptr r,
  ptr <> 0%Z ->
  (len =? 0)%Z = false -> buf_ensure_space junk ok b len = Ok r ->
  exists o,
    buf_append_start junk ok b len = Ok (o, snd r) /\
    c_ares_buf_append_start len (fst r) (cb_alloc (snd r)) (cb_dlen (snd r)) ptr
      = Ok (match o with Some _ => ptr | None => 0%Z end, match o with Some n => n | None => len end).
Proof. exact buf_append_start_agrees_generated. Qed.
Print Assumptions C19_buf_append_start_agrees_generated.

(* ares_llist_node_detach: the cells of the heap after the model's detach are the outputs of the
   function generated from the C source (pointers encoded relative to the node: node = 1,
   NULL = 0), under the local well-formedness the list invariant gives a member *)
From CAres.Dsa Require Import LList_gen_agree.
Theorem C19_llist_node_detach_agrees_generated : forall h n nd l L c,
  nth_error (lh_nodes h) n = Some (Some nd) ->
  ln_parent nd = Some l ->
  nth_error (lh_lists h) l = Some (Some L) ->
  ll_cnt L = S c -> (Z.of_nat (S c) < 2 ^ 64)%Z ->
  (forall p, ln_prev nd = Some p -> p <> n /\ ll_node_at h (Some p) <> None) ->
  (forall x, ln_next nd = Some x -> x <> n /\ ll_node_at h (Some x) <> None) ->
  (forall p x, ln_prev nd = Some p -> ln_next nd = Some x -> p <> x) ->
  forall nextprev_in prevnext_in,
  (forall xd, ll_node_at h (ln_next nd) = Some xd -> nextprev_in = ll_enc n (ln_prev xd)) ->
  (forall pd, ll_node_at h (ln_prev nd) = Some pd -> prevnext_in = ll_enc n (ln_next pd)) ->
  exists h' L' nd',
    ll_node_detach h (Some n) = Ok h' /\
    ll_list_at h' l = Some L' /\ ll_node_at h' (Some n) = Some nd' /\
    exists o1 o6,
      c_ares_llist_node_detach (ll_enc n (ln_prev nd)) (ll_enc n (ln_next nd))
                               (ll_enc n (ll_head L)) (ll_enc n (ll_tail L))
                               (Z.of_nat (ll_cnt L)) (ll_enc n (ll_tail L)) (ll_enc n (ll_head L))
                               nextprev_in prevnext_in
        = Ok (o1, ll_enc n (ln_parent nd'), Z.of_nat (ll_cnt L'), ll_enc n (ll_head L'), ll_enc n (ll_tail L'), o6) /\
      (forall xd', ll_node_at h' (ln_next nd) = Some xd' -> o1 = ll_enc n (ln_prev xd')) /\
      (forall pd', ll_node_at h' (ln_prev nd) = Some pd' -> o6 = ll_enc n (ln_next pd')).
Proof. exact ll_node_detach_agrees_generated. Qed.
Print Assumptions C19_llist_node_detach_agrees_generated.

(* ares_round_up_pow2 (the growth function of ares_array / ares_slist / ares_htable), GENERATED
   from src/lib/util/ares_math.c with both bit-smearing bodies inlined: for every size a container
   can pass it returns the least power of two >= n, which is the value the hand models and
   C19_array_set_size_agrees_generated instantiate the call with (Dsa/Pow2_gen_agree.v; proof by
   an invariant over bit positions, for ALL n in range, both word sizes). *)
From CAres.Dsa Require Import Pow2_gen_agree.
Theorem C19_round_up_pow2_agrees_generated : forall k : nat,
  (0 < k)%nat -> (Z.of_nat k <= 2 ^ 62)%Z ->
  c_ares_round_up_pow2 (Z.of_nat k) 1 = Ok (Z.of_nat (round_up_pow2 k)) /\
  sl_round_up_pow2 k = round_up_pow2 k.
Proof. intros k Hk Hb. split; [exact (round_up_pow2_agrees_generated k Hk Hb) | reflexivity]. Qed.
Print Assumptions C19_round_up_pow2_agrees_generated.

Theorem C19_round_up_pow2_generated_least : forall n p : Z,
  (1 <= n <= 2 ^ 62)%Z -> c_ares_round_up_pow2 n 1 = Ok p ->
  (n <= p)%Z /\ (exists e, 0 <= e /\ p = 2 ^ e)%Z /\ (forall e, 0 <= e -> n <= 2 ^ e -> p <= 2 ^ e)%Z.
Proof. exact round_up_pow2_generated_least. Qed.
Print Assumptions C19_round_up_pow2_generated_least.

(* the 32-bit body (ares_is_64bit() false), and this build's ares_is_64bit() *)
Theorem C19_round_up_pow2_generated_32 : forall n : Z,
  (1 <= n <= 2 ^ 31)%Z -> c_ares_round_up_pow2 n 0 = Ok (2 ^ Z.log2_up n)%Z.
Proof. exact round_up_pow2_generated_32. Qed.
Print Assumptions C19_round_up_pow2_generated_32.

Theorem C19_is_64bit_generated : c_ares_is_64bit = Ok 1%Z.
Proof. exact is_64bit_generated. Qed.
Print Assumptions C19_is_64bit_generated.

(* outside that range the C function is not total on LP64 (signed n++ on ares_int64_t overflows);
   no container operation reaches it - a size above 2^62 elements cannot be allocated *)
Theorem C19_round_up_pow2_overflow_refuted : c_ares_round_up_pow2 (2 ^ 62 + 1) 1 = UB SignedOverflow.
Proof. exact round_up_pow2_overflow_refuted. Qed.
Print Assumptions C19_round_up_pow2_overflow_refuted.

(* ares_log2 (de Bruijn multiplication + constant table), GENERATED from the source: on every power
   of two of a 64-bit word it is the exponent (finite domain, decided over all of it), and the two
   call inputs of the generated ares_slist_max_level - ares_round_up_pow2(cnt + 1) and ares_log2 of
   it - are exactly what the generated callees return *)
Theorem C19_log2_generated_pow2 : forall k : Z, (0 <= k < 64)%Z -> c_ares_log2 (2 ^ k) 1 = Ok k.
Proof. exact log2_generated_pow2. Qed.
Print Assumptions C19_log2_generated_pow2.

Theorem C19_slist_level_calls_agree_generated : forall k : nat,
  (0 < k)%nat -> (Z.of_nat k <= 2 ^ 62)%Z ->
  c_ares_round_up_pow2 (Z.of_nat k) 1 = Ok (Z.of_nat (sl_round_up_pow2 k)) /\
  c_ares_log2 (Z.of_nat (sl_round_up_pow2 k)) 1 = Ok (Z.of_nat (sl_log2 (sl_round_up_pow2 k))).
Proof. exact slist_level_calls_agree_generated. Qed.
Print Assumptions C19_slist_level_calls_agree_generated.
