(* C19 - containers behave as their abstract data types.  Statements only; proofs are in Dsa/*_proofs.v *)
From CAres.Dsa Require Import Array Array_proofs.
From CAres.Gen Require Import Consts.

Theorem C19_array_at_refines : forall a idx, arr_at a idx = nth_error (arr_abs a) idx.
Proof. exact arr_at_refines. Qed.
Print Assumptions C19_array_at_refines.

(* ---- skip list (ares_slist.c): coq/Dsa/SList.v, SList_heap.v, SList_proofs.v ---- *)
From CAres.Dsa Require Import SList SList_proofs.

(* main statement: for every comparison callback whose sign is a total preorder and every
   operation sequence (every level choice, every allocator answer), a whole life of the model
   (create, the operations, destroy) yields exactly the results of the sorted-list specification,
   in particular it is never UB and never runs out of fuel *)
Theorem C19_slist_refines :
  forall (D : Type) (cmp : D -> D -> Z),
    (forall a b : D, (cmp a b > 0)%Z <-> (cmp b a < 0)%Z) ->
    (forall a b c : D, (cmp a b <= 0)%Z -> (cmp b c <= 0)%Z -> (cmp a c <= 0)%Z) ->
    forall ops : list (sl_op D), sl_life_model cmp ops = Ok (sl_life_spec cmp ops).
Proof. exact @sl_life_refines. Qed.
Print Assumptions C19_slist_refines.

Theorem C19_slist_never_ub :
  forall (D : Type) (cmp : D -> D -> Z),
    (forall a b : D, (cmp a b > 0)%Z <-> (cmp b a < 0)%Z) ->
    (forall a b c : D, (cmp a b <= 0)%Z -> (cmp b c <= 0)%Z -> (cmp a c <= 0)%Z) ->
    forall ops : list (sl_op D),
      is_ub (sl_life_model cmp ops) = false /\ sl_life_model cmp ops <> Err OutOfFuel.
Proof. exact @sl_life_never_ub. Qed.
Print Assumptions C19_slist_never_ub.

(* after any operation sequence: first/next... yields the specification list, last/prev... its
   reverse, len its length; it is sorted by cmp and holds every node at most once *)
Theorem C19_slist_sorted_stable :
  forall (D : Type) (cmp : D -> D -> Z),
    (forall a b : D, (cmp a b > 0)%Z <-> (cmp b a < 0)%Z) ->
    (forall a b c : D, (cmp a b <= 0)%Z -> (cmp b c <= 0)%Z -> (cmp a c <= 0)%Z) ->
    forall ops : list (sl_op D),
    exists (s0 : slist D) (rs : list (sl_res D)) (s : slist D),
      sl_create true true = Some s0 /\
      sl_run_model cmp s0 ops = Ok (rs, s) /\
      (let l := sp_l (snd (sl_run_spec cmp sl_spec_create ops)) in
       sl_walk_fwd s = Ok l /\ sl_walk_bwd s = Ok (rev l) /\ sl_len s = length l /\
       sl_sorted cmp (map snd l) /\ NoDup (map fst l)).
Proof. exact @sl_sorted_stable. Qed.
Print Assumptions C19_slist_sorted_stable.

(* nothing lost or duplicated: the specification's insert adds exactly the new element, its
   removal takes out exactly the named node *)
Theorem C19_slist_insert_adds_one :
  forall (D : Type) (cmp : D -> D -> Z) (x : nat * D) (l : list (nat * D)),
    Permutation (sl_spec_ins cmp x l) (x :: l).
Proof. exact @sl_spec_ins_perm. Qed.
Print Assumptions C19_slist_insert_adds_one.

Theorem C19_slist_remove_takes_one :
  forall (D : Type) (l : list (nat * D)) (n : nat) (d : D),
    NoDup (map fst l) -> In (n, d) l -> Permutation l ((n, d) :: sl_spec_remove n l).
Proof. exact @sl_spec_remove_perm. Qed.
Print Assumptions C19_slist_remove_takes_one.

(* the tie rule of the C code: a new element goes after all strictly smaller elements and BEFORE
   all elements that are equal or larger *)
Theorem C19_slist_insert_position :
  forall (D : Type) (cmp : D -> D -> Z),
    (forall a b c : D, (cmp a b <= 0)%Z -> (cmp b c <= 0)%Z -> (cmp a c <= 0)%Z) ->
    forall (x : nat * D) (sp : list (nat * D)),
      sl_sorted cmp (map snd sp) ->
      exists Pl Sl : list (nat * D),
        sp = Pl ++ Sl /\ sl_spec_ins cmp x sp = Pl ++ x :: Sl /\
        (forall e : nat * D, In e Pl -> (cmp (snd x) (snd e) > 0)%Z) /\
        (forall e : nat * D, In e Sl -> (cmp (snd x) (snd e) <= 0)%Z).
Proof. exact @sl_spec_ins_split. Qed.
Print Assumptions C19_slist_insert_position.

(* find returns the first element (in first/next order) that compares equal to the probe, and
   NULL exactly when there is none *)
Theorem C19_slist_find_first :
  forall (D : Type) (cmp : D -> D -> Z),
    (forall a b : D, (cmp a b > 0)%Z <-> (cmp b a < 0)%Z) ->
    (forall a b c : D, (cmp a b <= 0)%Z -> (cmp b c <= 0)%Z -> (cmp a c <= 0)%Z) ->
    forall (ops : list (sl_op D)) (v : D),
    exists (s0 : slist D) (rs : list (sl_res D)) (s : slist D) (l : list (nat * D)),
      sl_create true true = Some s0 /\
      sl_run_model cmp s0 ops = Ok (rs, s) /\
      sl_walk_fwd s = Ok l /\
      (exists r : option nat,
         sl_node_find cmp s v = Ok r /\
         match r with
         | Some f =>
             exists (A : list (nat * D)) (d : D) (B : list (nat * D)),
               l = A ++ (f, d) :: B /\ cmp v d = 0%Z /\
               (forall e : nat * D, In e A -> cmp v (snd e) <> 0%Z)
         | None => forall e : nat * D, In e l -> cmp v (snd e) <> 0%Z
         end).
Proof. exact @sl_find_first. Qed.
Print Assumptions C19_slist_find_first.

(* first = minimum *)
Theorem C19_slist_first_minimum :
  forall (D : Type) (cmp : D -> D -> Z),
    (forall a b : D, (cmp a b > 0)%Z <-> (cmp b a < 0)%Z) ->
    (forall a b c : D, (cmp a b <= 0)%Z -> (cmp b c <= 0)%Z -> (cmp a c <= 0)%Z) ->
    forall ops : list (sl_op D),
    exists (s0 : slist D) (rs : list (sl_res D)) (s : slist D) (l : list (nat * D)),
      sl_create true true = Some s0 /\
      sl_run_model cmp s0 ops = Ok (rs, s) /\
      sl_walk_fwd s = Ok l /\
      sl_first_val s = Ok (option_map snd (hd_error l)) /\
      (forall d : D, option_map snd (hd_error l) = Some d ->
                     forall e : nat * D, In e l -> (cmp d (snd e) <= 0)%Z).
Proof. exact @sl_first_minimum. Qed.
Print Assumptions C19_slist_first_minimum.

(* the coin flips are unobservable: two operation sequences that differ only in the level
   choices give the same results (as long as the head-array reallocation, the one allocation
   whose occurrence depends on the levels, is not made to fail) *)
Theorem C19_slist_level_choice_irrelevant :
  forall (D : Type) (cmp : D -> D -> Z),
    (forall a b : D, (cmp a b > 0)%Z <-> (cmp b a < 0)%Z) ->
    (forall a b c : D, (cmp a b <= 0)%Z -> (cmp b c <= 0)%Z -> (cmp a c <= 0)%Z) ->
    forall ops ops' : list (sl_op D),
      map sl_op_erase ops = map sl_op_erase ops' ->
      Forall sl_op_head_ok ops -> Forall sl_op_head_ok ops' ->
      sl_life_model cmp ops = sl_life_model cmp ops'.
Proof. exact @sl_level_choice_irrelevant. Qed.
Print Assumptions C19_slist_level_choice_irrelevant.

(* an operation through a pointer to a released node is an explicit UB of the model *)
Theorem C19_slist_dead_node_is_ub :
  forall (D : Type) (s : slist D) (n : nat),
    sl_is_live s n = false ->
    sl_node_claim s n = UB UseAfterFree /\ sl_node_next s n = UB UseAfterFree /\
    sl_node_prev s n = UB UseAfterFree /\ sl_node_val s n = UB UseAfterFree /\
    sl_node_pop s n = UB UseAfterFree.
Proof. exact @sl_dead_node_is_ub. Qed.
Print Assumptions C19_slist_dead_node_is_ub.
