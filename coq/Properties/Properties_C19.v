(* C19 - containers behave as their abstract data types.  Statements only; proofs are in Dsa/*_proofs.v *)
From CAres.Dsa Require Import Array Array_proofs.
From CAres.Gen Require Import Consts.

(* ===================== array (src/lib/dsa/ares_array.c) ===================== *)

(* The C19 array theorem: for EVERY sequence of API calls on a fresh array, with an allocator
   that never refuses, the model returns call by call what the plain list returns (statuses,
   removed members, reads, lengths), ends with the list as its members, and never runs into C
   undefined behaviour.  "Keeps sequence order for inserts and removals at any index and stays
   usable after any removal pattern". *)
Theorem C19_array_run_refines : forall ops : list arr_op,
  let '(a', rs) := arr_run arr_create (map (fun o => (true, o)) ops) in
  let '(l', rs') := aspec_run [] ops in
  rs = rs' /\ arr_abs a' = l' /\ ~ In RUB rs.
Proof. exact arr_run_refines. Qed.
Print Assumptions C19_array_run_refines.

(* With an allocator that may refuse (one answer per call): the only deviation from the list is
   an in-range insert that reports ARES_ENOMEM and changes nothing, and only when the allocator
   refused.  (Container-level half of C14 for the array.) *)
Theorem C19_array_run_alloc_refines : forall ops : list (bool * arr_op),
  let '(a', rs) := arr_run arr_create ops in
  aspec_trace [] ops rs (arr_abs a') /\ ~ In RUB rs.
Proof. exact arr_run_alloc_refines. Qed.
Print Assumptions C19_array_run_alloc_refines.

(* Per operation, on any state satisfying the invariant (established by create, preserved). *)
Theorem C19_array_insert : forall ok a idx v,
  arr_inv_full a -> idx <= a_cnt a ->
  (exists a', arr_insertdata_at ok a idx v = Ok a' /\ arr_inv_full a'
              /\ a_cnt a' = S (a_cnt a)
              /\ arr_abs a' = firstn idx (arr_abs a) ++ v :: skipn idx (arr_abs a))
  \/ (ok = false /\ arr_insertdata_at ok a idx v = Err ARES_ENOMEM).
Proof. exact arr_insert_refines. Qed.
Print Assumptions C19_array_insert.

Theorem C19_array_insert_bad_index : forall ok a idx v,
  a_cnt a < idx -> arr_insertdata_at ok a idx v = Err ARES_EFORMERR.
Proof. exact arr_insert_bad_index. Qed.
Print Assumptions C19_array_insert_bad_index.

Theorem C19_array_remove : forall a idx,
  arr_inv_full a -> idx < a_cnt a ->
  exists a' v, arr_remove_at a idx = Ok (a', v) /\ arr_inv_full a'
               /\ S (a_cnt a') = a_cnt a
               /\ nth_error (arr_abs a) idx = Some v
               /\ arr_abs a' = firstn idx (arr_abs a) ++ skipn (S idx) (arr_abs a).
Proof. exact arr_remove_refines. Qed.
Print Assumptions C19_array_remove.

Theorem C19_array_remove_bad_index : forall a idx,
  a_cnt a <= idx -> arr_remove_at a idx = Err ARES_EFORMERR.
Proof. exact arr_remove_bad_index. Qed.
Print Assumptions C19_array_remove_bad_index.

Theorem C19_array_at_refines : forall a idx, arr_at a idx = nth_error (arr_abs a) idx.
Proof. exact arr_at_refines. Qed.
Print Assumptions C19_array_at_refines.

(* ares_array_finish after any sequence of calls hands out exactly the list, in order. *)
Theorem C19_array_run_finish : forall ops : list arr_op,
  arr_finish (fst (arr_run arr_create (map (fun o => (true, o)) ops))) = Ok (fst (aspec_run [] ops)).
Proof. exact arr_run_finish. Qed.
Print Assumptions C19_array_run_finish.

(* ---- doubly linked list (src/lib/dsa/ares_llist.c): Dsa/LList.v, Dsa/LList_proofs.v ---- *)
From CAres.Dsa Require Import LList LList_proofs.

(* the invariant [ll_inv h s] (heap h represents the finite set of lists s) holds initially *)
Theorem C19_llist_inv_create : ll_inv ll_heap_empty ll_spec_empty.
Proof. exact ll_inv_empty. Qed.
Print Assumptions C19_llist_inv_create.

(* one API call whose node / list arguments are alive (NULL allowed): never UB, never out of
   fuel, returns what the list specification returns, re-establishes the invariant *)
Theorem C19_llist_exec_refines : forall h s o, ll_inv h s ->
  forallb (ll_sp_node_live s) (ll_op_nodes o) && forallb (ll_sp_list_live s) (ll_op_lists o) = true ->
  exists h', ll_exec h o = Ok (h', snd (ll_spec_exec s o)) /\ ll_inv h' (fst (ll_spec_exec s o)).
Proof. exact ll_exec_refines. Qed.
Print Assumptions C19_llist_exec_refines.

(* one step of a caller that never passes dangling pointers (such calls are skipped, and model
   and specification agree on which pointers dangle) *)
Theorem C19_llist_step_refines : forall h s o, ll_inv h s ->
  exists h', ll_model_step h o = Ok (h', snd (ll_spec_step s o)) /\ ll_inv h' (fst (ll_spec_step s o)).
Proof. exact ll_step_refines. Qed.
Print Assumptions C19_llist_step_refines.

(* MAIN: for every operation sequence over any number of lists, starting from nothing, the
   code-shaped model yields exactly the results and observations of the list specification:
   after every operation, every result and, for every live list, the forward traversal
   (node, value, parent), the backward traversal and len *)
Theorem C19_llist_run_refines : forall ops,
  ll_run_model ll_heap_empty ops = Ok (ll_run_spec ll_spec_empty ops).
Proof. exact ll_run_refines_from_create. Qed.
Print Assumptions C19_llist_run_refines.

(* the same from any state satisfying the invariant *)
Theorem C19_llist_run_refines_inv : forall ops h s, ll_inv h s ->
  ll_run_model h ops = Ok (ll_run_spec s ops).
Proof. exact ll_run_refines. Qed.
Print Assumptions C19_llist_run_refines_inv.

(* the invariant holds after every operation sequence *)
Theorem C19_llist_inv_reachable : forall ops h s, ll_inv h s ->
  exists h', ll_model_after h ops = Ok h' /\ ll_inv h' (ll_spec_after s ops).
Proof. exact ll_inv_reachable. Qed.
Print Assumptions C19_llist_inv_reachable.

(* C19_llist_order: forward traversal (head, next, ...) = the specification list, every node's
   parent is the list; backward traversal (tail, prev, ...) = its reverse; len = its length;
   the traversal fuel (number of nodes ever created) is never exhausted *)
Theorem C19_llist_order : forall h s l sl, ll_inv h s -> nth_error (sp_lists s) l = Some (Some sl) ->
  ll_observe_list h l =
  Ok (mkLV (map (fun x => (fst x, snd x, Some l)) (sl_items sl)) (rev (sl_items sl)) (length (sl_items sl))).
Proof. exact ll_order. Qed.
Print Assumptions C19_llist_order.

Theorem C19_llist_fwd_rev_bwd : forall h s l sl v, ll_inv h s -> nth_error (sp_lists s) l = Some (Some sl) ->
  ll_observe_list h l = Ok v ->
  map (fun x => (fst (fst x), snd (fst x))) (lv_fwd v) = rev (lv_bwd v) /\
  lv_len v = length (lv_fwd v) /\ lv_len v = length (lv_bwd v) /\
  forall x, In x (lv_fwd v) -> snd x = Some l.
Proof. exact ll_fwd_rev_bwd. Qed.
Print Assumptions C19_llist_fwd_rev_bwd.

(* all live lists at once *)
Theorem C19_llist_observe : forall h s, ll_inv h s -> ll_observe h = Ok (ll_spec_observe s).
Proof. exact ll_observe_ok. Qed.
Print Assumptions C19_llist_observe.

(* every allocated node is in exactly one list at exactly one position, its parent pointer
   names that list and its value is the specification's; members are allocated *)
Theorem C19_llist_one_owner : forall h s n, ll_inv h s -> ll_node_live h n = true ->
  exists l sl p v,
    nth_error (sp_lists s) l = Some (Some sl) /\ nth_error (sl_items sl) p = Some (n, v) /\
    ll_node_parent h (Some n) = Ok (Some l) /\ ll_node_val h (Some n) = Ok v /\
    forall l' sl' p' v', nth_error (sp_lists s) l' = Some (Some sl') ->
      nth_error (sl_items sl') p' = Some (n, v') -> l' = l /\ p' = p /\ v' = v.
Proof. exact ll_one_owner. Qed.
Print Assumptions C19_llist_one_owner.

Theorem C19_llist_members_live : forall h s l sl p n v, ll_inv h s ->
  nth_error (sp_lists s) l = Some (Some sl) -> nth_error (sl_items sl) p = Some (n, v) ->
  ll_node_live h n = true.
Proof. exact ll_members_live. Qed.
Print Assumptions C19_llist_members_live.

(* C14 (atomicity): with a failing allocator create / insert_* return NULL and neither the
   heap nor the specification state changes *)
Theorem C19_llist_alloc_fail_atomic : forall h s o, ll_inv h s -> ll_is_failing_alloc o = true ->
  exists r, ll_model_step h o = Ok (h, r) /\ ll_spec_step s o = (s, r) /\
            (r = RSkip \/ r = RNode None \/ r = RList None).
Proof. exact ll_step_alloc_fail_atomic. Qed.
Print Assumptions C19_llist_alloc_fail_atomic.

(* ---- skip list (ares_slist.c): coq/Dsa/SList.v, SList_heap.v, SList_proofs.v ---- *)
From CAres.Dsa Require Import SList SList_proofs.

(* main statement: for every comparison callback whose sign is a total preorder and every
   operation sequence (every level choice, every allocator answer), a whole life of the model
   (create, the operations, destroy) yields exactly the results of the sorted-list specification,
   in particular it is never UB and never runs out of fuel *)
Theorem C19_slist_refines :
  forall (D : Type) (cmp : D -> D -> Z),
    (forall a b : D, (cmp a b > 0)%Z <-> (cmp b a < 0)%Z) ->
    (forall a b c : D, (cmp a b <= 0)%Z -> (cmp b c <= 0)%Z -> (cmp a c <= 0)%Z) ->
    forall ops : list (sl_op D), sl_life_model cmp ops = Ok (sl_life_spec cmp ops).
Proof. exact @sl_life_refines. Qed.
Print Assumptions C19_slist_refines.

Theorem C19_slist_never_ub :
  forall (D : Type) (cmp : D -> D -> Z),
    (forall a b : D, (cmp a b > 0)%Z <-> (cmp b a < 0)%Z) ->
    (forall a b c : D, (cmp a b <= 0)%Z -> (cmp b c <= 0)%Z -> (cmp a c <= 0)%Z) ->
    forall ops : list (sl_op D),
      is_ub (sl_life_model cmp ops) = false /\ sl_life_model cmp ops <> Err OutOfFuel.
Proof. exact @sl_life_never_ub. Qed.
Print Assumptions C19_slist_never_ub.

(* after any operation sequence: first/next... yields the specification list, last/prev... its
   reverse, len its length; it is sorted by cmp and holds every node at most once *)
Theorem C19_slist_sorted_stable :
  forall (D : Type) (cmp : D -> D -> Z),
    (forall a b : D, (cmp a b > 0)%Z <-> (cmp b a < 0)%Z) ->
    (forall a b c : D, (cmp a b <= 0)%Z -> (cmp b c <= 0)%Z -> (cmp a c <= 0)%Z) ->
    forall ops : list (sl_op D),
    exists (s0 : slist D) (rs : list (sl_res D)) (s : slist D),
      sl_create true true = Some s0 /\
      sl_run_model cmp s0 ops = Ok (rs, s) /\
      (let l := sp_l (snd (sl_run_spec cmp sl_spec_create ops)) in
       sl_walk_fwd s = Ok l /\ sl_walk_bwd s = Ok (rev l) /\ sl_len s = length l /\
       sl_sorted cmp (map snd l) /\ NoDup (map fst l)).
Proof. exact @sl_sorted_stable. Qed.
Print Assumptions C19_slist_sorted_stable.

(* nothing lost or duplicated: the specification's insert adds exactly the new element, its
   removal takes out exactly the named node *)
Theorem C19_slist_insert_adds_one :
  forall (D : Type) (cmp : D -> D -> Z) (x : nat * D) (l : list (nat * D)),
    Permutation (sl_spec_ins cmp x l) (x :: l).
Proof. exact @sl_spec_ins_perm. Qed.
Print Assumptions C19_slist_insert_adds_one.

Theorem C19_slist_remove_takes_one :
  forall (D : Type) (l : list (nat * D)) (n : nat) (d : D),
    NoDup (map fst l) -> In (n, d) l -> Permutation l ((n, d) :: sl_spec_remove n l).
Proof. exact @sl_spec_remove_perm. Qed.
Print Assumptions C19_slist_remove_takes_one.

(* the tie rule of the C code: a new element goes after all strictly smaller elements and BEFORE
   all elements that are equal or larger *)
Theorem C19_slist_insert_position :
  forall (D : Type) (cmp : D -> D -> Z),
    (forall a b c : D, (cmp a b <= 0)%Z -> (cmp b c <= 0)%Z -> (cmp a c <= 0)%Z) ->
    forall (x : nat * D) (sp : list (nat * D)),
      sl_sorted cmp (map snd sp) ->
      exists Pl Sl : list (nat * D),
        sp = Pl ++ Sl /\ sl_spec_ins cmp x sp = Pl ++ x :: Sl /\
        (forall e : nat * D, In e Pl -> (cmp (snd x) (snd e) > 0)%Z) /\
        (forall e : nat * D, In e Sl -> (cmp (snd x) (snd e) <= 0)%Z).
Proof. exact @sl_spec_ins_split. Qed.
Print Assumptions C19_slist_insert_position.

(* find returns the first element (in first/next order) that compares equal to the probe, and
   NULL exactly when there is none *)
Theorem C19_slist_find_first :
  forall (D : Type) (cmp : D -> D -> Z),
    (forall a b : D, (cmp a b > 0)%Z <-> (cmp b a < 0)%Z) ->
    (forall a b c : D, (cmp a b <= 0)%Z -> (cmp b c <= 0)%Z -> (cmp a c <= 0)%Z) ->
    forall (ops : list (sl_op D)) (v : D),
    exists (s0 : slist D) (rs : list (sl_res D)) (s : slist D) (l : list (nat * D)),
      sl_create true true = Some s0 /\
      sl_run_model cmp s0 ops = Ok (rs, s) /\
      sl_walk_fwd s = Ok l /\
      (exists r : option nat,
         sl_node_find cmp s v = Ok r /\
         match r with
         | Some f =>
             exists (A : list (nat * D)) (d : D) (B : list (nat * D)),
               l = A ++ (f, d) :: B /\ cmp v d = 0%Z /\
               (forall e : nat * D, In e A -> cmp v (snd e) <> 0%Z)
         | None => forall e : nat * D, In e l -> cmp v (snd e) <> 0%Z
         end).
Proof. exact @sl_find_first. Qed.
Print Assumptions C19_slist_find_first.

(* first = minimum *)
Theorem C19_slist_first_minimum :
  forall (D : Type) (cmp : D -> D -> Z),
    (forall a b : D, (cmp a b > 0)%Z <-> (cmp b a < 0)%Z) ->
    (forall a b c : D, (cmp a b <= 0)%Z -> (cmp b c <= 0)%Z -> (cmp a c <= 0)%Z) ->
    forall ops : list (sl_op D),
    exists (s0 : slist D) (rs : list (sl_res D)) (s : slist D) (l : list (nat * D)),
      sl_create true true = Some s0 /\
      sl_run_model cmp s0 ops = Ok (rs, s) /\
      sl_walk_fwd s = Ok l /\
      sl_first_val s = Ok (option_map snd (hd_error l)) /\
      (forall d : D, option_map snd (hd_error l) = Some d ->
                     forall e : nat * D, In e l -> (cmp d (snd e) <= 0)%Z).
Proof. exact @sl_first_minimum. Qed.
Print Assumptions C19_slist_first_minimum.

(* the coin flips are unobservable: two operation sequences that differ only in the level
   choices give the same results (as long as the head-array reallocation, the one allocation
   whose occurrence depends on the levels, is not made to fail) *)
Theorem C19_slist_level_choice_irrelevant :
  forall (D : Type) (cmp : D -> D -> Z),
    (forall a b : D, (cmp a b > 0)%Z <-> (cmp b a < 0)%Z) ->
    (forall a b c : D, (cmp a b <= 0)%Z -> (cmp b c <= 0)%Z -> (cmp a c <= 0)%Z) ->
    forall ops ops' : list (sl_op D),
      map sl_op_erase ops = map sl_op_erase ops' ->
      Forall sl_op_head_ok ops -> Forall sl_op_head_ok ops' ->
      sl_life_model cmp ops = sl_life_model cmp ops'.
Proof. exact @sl_level_choice_irrelevant. Qed.
Print Assumptions C19_slist_level_choice_irrelevant.

(* an operation through a pointer to a released node is an explicit UB of the model *)
Theorem C19_slist_dead_node_is_ub :
  forall (D : Type) (s : slist D) (n : nat),
    sl_is_live s n = false ->
    sl_node_claim s n = UB UseAfterFree /\ sl_node_next s n = UB UseAfterFree /\
    sl_node_prev s n = UB UseAfterFree /\ sl_node_val s n = UB UseAfterFree /\
    sl_node_pop s n = UB UseAfterFree.
Proof. exact @sl_dead_node_is_ub. Qed.
Print Assumptions C19_slist_dead_node_is_ub.
