(* C03 - write then parse is the identity, including for what goes on the wire.
   Statements only; proofs are in Wire/Write_proofs.v.

   FULL STATEMENTS (kept visible; docs/C03.md says what carries them today):
     C03_roundtrip : forall d bs, (built_by_api d \/ exists bs0, dns_parse bs0 0 = Ok d) -> canonical_names d ->
         dns_write d = Ok bs ->
         Z.of_nat (length bs) <= 65535 /\ exists d', dns_parse bs 0 = Ok d' /\ record_eqb d d' = true /\ dns_write d' = Ok bs
     C03_frame_any_position : forall d b b', write_buf_tcp wfixed d b = Ok (ARES_SUCCESS, b') ->
         exists m, w_live b' = w_live b ++ be16 (length m) ++ m /\ dns_write d = Ok m
     C03_query_builders : create_query ... = Ok bs -> parse bs = the one-question record
   They are decided on every run by the implementation-only oracle (write -> parse -> record_eqb ->
   rewrite, TCP frames at positions after 0..3 earlier frames and partial sends, legacy builders)
   and by the correspondence of the extracted writer model with the library.  Proved below: the
   statements do NOT hold for the pinned tree (five witnesses, each a defect with a patch or a
   finding). *)
From CAres.Wire Require Import Cursor Name Record Parse Escape Escape_proofs RefDecode Name_ref Write Roundtrip Write_proofs Write_name Write_host Write_name2 Write_pos Write_boundary Write_query.
From CAres.Gen Require Import Consts Tables.
Local Open Scope Z_scope.

(* NAME ROUND TRIP, uncompressed path (both variants): for every sequence of valid labels (1..63
   octets each, at most 255 octets on the wire, any octet values) whose canonical text fits the
   511-character scratch buffer, ares_dns_name_write without a usable compression target emits the
   wire form, and parsing at the position it was written to - in a buffer with ARBITRARY content
   before and after - returns the same name and the position right behind it.
   _partial: the compressed path (a suffix found in the offset list; DESIGN.md A.4 invariant) and
   hostname validation (owner / question names) are not covered *)
Theorem C03_name_roundtrip_uncompressed_partial : forall wv base b labels post fuel,
  Forall label_ok labels -> wire_len labels <= 256 -> slen (escape_name labels) < 512 ->
  bytes_ok (w_live b) -> bytes_ok post ->
  exists b', name_write wv base b None false (escape_name labels) = Ok (b', None) /\
    let bytes := w_live b' ++ post in
    let c := set_off (cur_of_bytes bytes) (Z.of_nat (length (w_live b))) in
    Z.of_nat (length bytes) < 2 ^ 64 -> (name_fuel c <= fuel)%nat ->
    dns_name_parse fuel c true false = Ok (escape_name labels, set_off c (Z.of_nat (length (w_live b')))).
Proof. exact name_roundtrip_uncompressed. Qed.
Print Assumptions C03_name_roundtrip_uncompressed_partial.

(* FRAMES AT ANY BUFFER POSITION (fixed variant), for ALL records and ALL buffers: writing a
   length-prefixed frame with ares_dns_write_buf_tcp into a buffer that already holds arbitrary
   octets (earlier frames, a partially sent frame) has exactly the outcome of writing it into an
   empty buffer - the same status, and exactly the same octets appended behind what was there
   (on failure nothing is appended).  Together with the round trip of the frame written at
   position 0 (decided by the oracle) this is C03_frame_any_position.
   Hypotheses: the buffer is well formed and has no pending back-patch (empty shadow), which holds
   between frames.  Proof: simulation of the whole writer (all RDATA writers, name compression,
   RDLENGTH / OPT / RAW_RR / TCP-length back-patching) under a relation between the two buffers. *)
Theorem C03_frame_position_independent : forall d b,
  wb_wf b -> w_shadow b = [] ->
  match write_buf_tcp wfixed d wb_empty, write_buf_tcp wfixed d b with
  | Ok (s0, b0), Ok (s, b') => s = s0 /\ w_live b' = w_live b ++ w_live b0
  | Err s0, Err s => s = s0
  | UB k0, UB k => k = k0
  | _, _ => False
  end.
Proof. exact frame_position_independent. Qed.
Print Assumptions C03_frame_position_independent.

(* NAME ROUND TRIP under the offset-list invariant of DESIGN.md A.4 (fixed variant: offsets relative
   to the message start, no compression target beyond 16383).  [pre] is whatever the buffer held
   before the message (TCP prefix, earlier frames), [out] the message so far, [ol] the offset list:
   every entry is a canonical name that the RFC walk decodes at its offset (ol_ok).  Then whatever
   ares_dns_name_write appends (all labels + 0, or some labels + a pointer to the longest registered
   suffix, or just a pointer) keeps the invariant, and parsing at the position of the name in the
   message - whatever follows - returns the same name and the position right behind it.
   Both kinds of names: RDATA names (validate_hostname = FALSE, any octets) and owner / question
   names (validate_hostname = TRUE, all octets hostname characters).
   _partial: names in canonical presentation form (escape_name of valid labels); non-canonical text
   (trailing dot, \DDD for printable octets) is not covered *)
Theorem C03_name_roundtrip_partial : forall (validate_hostname : bool) b pre out ol labels,
  wb_wf b -> w_live b = pre ++ out -> ol_ok out ol -> bytes_ok out ->
  Forall label_ok labels -> wire_len labels <= 256 -> slen (escape_name labels) < 512 ->
  (validate_hostname = true -> Forall host_label labels) ->
  forall b' nl', name_write wfixed (Z.of_nat (length pre)) b (Some ol) validate_hostname (escape_name labels) = Ok (b', nl') ->
  exists more ol', nl' = Some ol' /\ wb_wf b' /\ w_live b' = pre ++ out ++ more /\ ol_ok (out ++ more) ol' /\
    bytes_ok (out ++ more) /\
    forall post fuel,
      bytes_ok post ->
      let msg := out ++ more ++ post in
      let c := set_off (cur_of_bytes msg) (Z.of_nat (length out)) in
      Z.of_nat (length msg) < 2 ^ 64 -> (name_fuel c <= fuel)%nat ->
      dns_name_parse fuel c true false = Ok (escape_name labels, set_off c (Z.of_nat (length out + length more))).
Proof. exact name_roundtrip. Qed.
Print Assumptions C03_name_roundtrip_partial.

(* COMPRESSION ONLY AT REAL LABEL BOUNDARIES (pinned and fixed tree, ANY presentation text with any
   escapes): when ares_dns_name_write succeeds after ares_nameoffset_find returned a registered name
   as a proper suffix of the text, the text is  prefix "." suffix  where the prefix tokenises
   completely - the dot in front of the suffix is an UNESCAPED separator, never the second character
   of "\." and never preceded by an odd run of backslashes; the tokens of the whole name are the
   tokens of the prefix, a separator, the tokens of the suffix *)
Theorem C03_suffix_match_at_label_boundary : forall wv base b ol validate_hostname name b' nl' on idx,
  wv_strip_dangling_escape wv = false ->
  name_write wv base b (Some ol) validate_hostname name = Ok (b', nl') ->
  nameoffset_find ol (firstn 511 name) = Some (on, idx) ->
  slen on <> slen (firstn 511 name) ->
  exists prefix tp,
    firstn 511 name = prefix ++ 46%N :: on /\
    tokens prefix = Some tp /\
    forall ton, tokens on = Some ton -> tokens (firstn 511 name) = Some (tp ++ TDot :: ton).
Proof. exact suffix_match_at_label_boundary. Qed.
Print Assumptions C03_suffix_match_at_label_boundary.

(* a writer that drops an odd trailing backslash of the prefix in front of a compression target
   (not in any tree; variant wstrip) writes "john\.smith.ex.com" after "smith.ex.com" as "john" +
   pointer: the write succeeds and parse (write r) differs from r *)
Theorem C03_suffix_match_refuted_if_escape_stripped : roundtrip_broken wstrip fixed_tree rec_escdot = true.
Proof. exact suffix_match_refuted_if_escape_stripped. Qed.
Print Assumptions C03_suffix_match_refuted_if_escape_stripped.

(* pinned tree: a frame written by ares_dns_write_buf_tcp() into an EMPTY buffer already has its
   compression pointers off by the two octets of the length prefix
   (fixes/C03-compression-offsets-relative-to-message.patch) *)
Theorem C03_frame_any_position_refuted :
  exists d b', write_buf_tcp wpinned d wb_empty = Ok (ARES_SUCCESS, b') /\
               forall d', dns_parse_pinned (frame_body b' 0) 0 = Ok d' -> record_eqb d d' = false.
Proof. exact frame_refuted_pinned. Qed.
Print Assumptions C03_frame_any_position_refuted.

(* pinned tree: a name first written at an offset >= 16384 is later referenced through a pointer
   truncated to 14 bits (fixes/C03-no-compression-target-beyond-16k.patch) *)
Theorem C03_roundtrip_refuted_pointer_truncation :
  exists d, roundtrip_broken wpinned pinned_tree d = true.
Proof. exact pointer_truncation_refuted_pinned. Qed.
Print Assumptions C03_roundtrip_refuted_pointer_truncation.

(* pinned tree: ares_dns_write() returns messages longer than 65535 octets
   (fixes/C03-write-length-limit.patch) *)
Theorem C03_roundtrip_refuted_length :
  exists d n, written_length wpinned d = Some n /\ n > 65535.
Proof. exact length_refuted_pinned. Qed.
Print Assumptions C03_roundtrip_refuted_length.

(* pinned tree: a name whose presentation text exceeds 511 characters is silently truncated
   (fixes/C03-long-name-truncation.patch) *)
Theorem C03_roundtrip_refuted_name_truncation :
  exists d bs d', dns_write_pinned d = Ok bs /\ dns_parse_pinned bs 0 = Ok d' /\ record_eqb d d' = false.
Proof. exact long_name_truncated_refuted_pinned. Qed.
Print Assumptions C03_roundtrip_refuted_name_truncation.

(* pinned AND fixed tree: a TXT string of more than 255 octets is split on write
   (known finding, findings/C03.json) *)
Theorem C03_roundtrip_refuted_txt_split :
  exists d bs d', dns_write d = Ok bs /\ dns_parse bs 0 = Ok d' /\ record_eqb d d' = false.
Proof. exact abin_split_refuted. Qed.
Print Assumptions C03_roundtrip_refuted_txt_split.

(* LEGACY QUERY BUILDERS, width of the question TYPE.  Gen/Tables.v records by probing the working
   tree whether ares_dns_rec_type_isvalid() accepts question types that do not fit the 16 bit TYPE
   field ([rec_type_query_outside]).  On a tree that does (the pinned tree and every tree without
   fixes/C03-query-type-16bit.patch) the builders violate C03_query_builders: ares_create_query(
   "a.ex", C_IN, 65537, ...) succeeds and what is on the wire - and parses back - is a question for
   type 1.  (The statement is vacuous on a tree with the fix.) *)
Theorem C03_query_builders_refuted_type_truncation :
  rec_type_query_outside = true ->
  exists bs d', create_query wfixed ex_qname 1 65537 7 1 0 = Ok bs /\ dns_parse bs 0 = Ok d' /\
                d_qd d' = [mkQ ex_qname 1 1].
Proof. exact query_type_truncated. Qed.
Print Assumptions C03_query_builders_refuted_type_truncation.

(* ... and on a tree that refuses them, every record ares_dns_record_create_query() returns carries
   a question type that the wire format can express.
   _partial: the rest of C03_query_builders (parse (write (the record)) = the record) is not covered *)
Theorem C03_query_type_fits_partial : forall name dnsclass type id flags max_udp d,
  rec_type_query_outside = false ->
  record_create_query name dnsclass type id flags max_udp = Ok d ->
  Forall (fun q => 0 <= q_type q < 65536) (d_qd d).
Proof. exact query_type_fits. Qed.
Print Assumptions C03_query_type_fits_partial.
