(* C11 - no lock-order deadlock through the configuration-reload thread ("... concurrently with
   ... its configuration-reload thread without ... lock-order deadlocks").  Statements only;
   model in Core/Reinit.v, proofs in Core/Reinit_proofs.v.  The reload thread's program is
   REGENERATED from src/lib/ares_init.c on every run (Gen/ReinitFacts.v). *)
From CAres.Core Require Import Reinit Reinit_proofs.
From CAres.Gen Require Import ReinitFacts.

(* the program read off the source has the shape the protocol needs: the lock is used in
   brackets, the pending mark is cleared with the lock held, and after it is cleared the lock
   is never taken again; and ares_reinit() has the shape of the hand-written client model
   (lock, test of the mark, mark, join, create, unlock - the join under the lock) *)
Theorem C11_reinit_thread_shape :
  helper_ok reinit_thread_prog = true /\ reinit_thread_structured = true /\
  reinit_client_ordered = true /\ reinit_client_joins_under_lock = true.
Proof. vm_compute. repeat split; reflexivity. Qed.
Print Assumptions C11_reinit_thread_shape.

(* For EVERY interleaving of any number of client threads calling ares_reinit() with the reload
   threads they create: no client ever waits in ares_thread_join(), holding the channel lock,
   for a reload thread that still has to take the channel lock. *)
Theorem C11_reinit_no_join_cycle : forall s, reach reinit_thread_prog s -> ~ join_cycle s.
Proof. apply no_join_cycle. vm_compute. reflexivity. Qed.
Print Assumptions C11_reinit_no_join_cycle.

(* ... the joined thread exists and, unless it has already returned, can take a step whatever
   the state of the lock: the join ends *)
Theorem C11_reinit_join_makes_progress : forall s c h,
  reach reinit_thread_prog s -> clients s c = CJoin h ->
  exists hd cl r, helpers s h = Some (hd, cl, r) /\ (r = nil \/ exists s', step reinit_thread_prog s s').
Proof. apply join_makes_progress. vm_compute. reflexivity. Qed.
Print Assumptions C11_reinit_join_makes_progress.

(* the same for every reload-thread program of that shape *)
Theorem C11_reinit_no_join_cycle_any_program : forall prog, helper_ok prog = true ->
  forall s, reach prog s -> ~ join_cycle s.
Proof. exact no_join_cycle. Qed.
Print Assumptions C11_reinit_no_join_cycle_any_program.

(* clearing the mark before the work is done admits the wait cycle *)
Theorem C11_reinit_early_clear_refuted :
  helper_ok early_clear_prog = false /\ exists s, reach early_clear_prog s /\ join_cycle s.
Proof. exact early_clear_refuted. Qed.
Print Assumptions C11_reinit_early_clear_refuted.
