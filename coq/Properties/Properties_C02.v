(* C02 - DNS message parsers are total and memory-safe on arbitrary bytes.
   Statements only; proofs are in Wire/*_proofs.v *)
From CAres.Wire Require Import Cursor Cursor_proofs Name Name_proofs Record Parse Parse_proofs RefDecode Name_ref Parse_shape.
From CAres.Gen Require Import Consts.
Local Open Scope Z_scope.

(* ares_dns_parse on ANY byte string (of a size a C object can have) with ANY parse flags: the
   model (header, question, every RR decoder incl. multistring / OPT / SVCB loops, RDLENGTH
   reconciliation) never performs an out-of-bounds read or any other modelled UB, and none of its
   loop fuels is ever exhausted (safe = not UB, not OutOfFuel); holds for the pinned tree and
   for the tree with fixes/C04-*.patch applied (variant) *)
Theorem C02_parse_no_ub : forall variant bytes flags,
  Z.of_nat (length bytes) < 2 ^ 64 -> safe (fun _ => True) (dns_parse_v variant bytes flags).
Proof. exact dns_parse_v_safe. Qed.
Print Assumptions C02_parse_no_ub.

(* success comes with a fully formed result: exactly one question; the number of RRs in each
   section is the count announced in the header octets; every RR has a type the library knows, every
   key of that type (in the order of ares_dns_rr_get_keys) and under each key a value of the key's
   datatype.  (An error carries no record by the type of the result.)  All flags, both variants. *)
Theorem C02_result_shape : forall variant bytes flags r,
  bytes_ok bytes -> Z.of_nat (length bytes) < 2 ^ 64 ->
  dns_parse_v variant bytes flags = Ok r ->
  length (d_qd r) = 1%nat /\
  u16_at bytes 4 = Some 1 /\
  u16_at bytes 6 = Some (Z.of_nat (length (d_an r))) /\
  u16_at bytes 8 = Some (Z.of_nat (length (d_ns r))) /\
  u16_at bytes 10 = Some (Z.of_nat (length (d_ar r))) /\
  Forall rr_shape (d_an r ++ d_ns r ++ d_ar r).
Proof. exact result_shape. Qed.
Print Assumptions C02_result_shape.

(* ares_dns_name_parse at any offset of any block, any fuel >= S(data_len), both modes:
   no out-of-bounds read (no UB of the model) *)
Theorem C02_name_no_ub : forall fuel c want is_hostname,
  cur_ok c -> (name_fuel c <= fuel)%nat -> is_ub (dns_name_parse_tr fuel c want is_hostname) = false.
Proof. exact name_parse_no_ub. Qed.
Print Assumptions C02_name_no_ub.

(* termination: the two nested fuels (jumps, forward steps per segment), each S(data_len), are
   never exhausted - compression pointers cannot make name decoding loop *)
Theorem C02_name_fuel_sufficient : forall fuel c want is_hostname,
  cur_ok c -> (name_fuel c <= fuel)%nat -> dns_name_parse_tr fuel c want is_hostname <> Err OutOfFuel.
Proof. exact name_parse_fuel_sufficient. Qed.
Print Assumptions C02_name_fuel_sufficient.

(* every followed pointer targets an offset strictly below every label/pointer octet read so far
   and below every earlier target (trace is newest first); the cursor invariant
   offset <= data_len <= block size holds afterwards, on the same block, and the caller
   continues strictly after the position the name started at *)
Theorem C02_name_pointers_strictly_backward : forall fuel c want is_hostname nm c' tr,
  cur_ok c -> (name_fuel c <= fuel)%nat ->
  dns_name_parse_tr fuel c want is_hostname = Ok (nm, c', tr) ->
  tr_backward tr /\ cur_ok c' /\ same_block c c' /\ c_off c < c_off c'.
Proof. exact name_parse_pointers_backward. Qed.
Print Assumptions C02_name_pointers_strictly_backward.

(* ares_expand_name with any int length (negative, zero, over-long) and any `encoded` offset
   (before, inside or past the block), s NULL or not: no UB, terminates *)
Theorem C02_expand_name_safe : forall abuf enc alen want,
  alen <= Z.of_nat (length abuf) -> alen < 2 ^ 31 ->
  safe (fun _ => True) (expand_name abuf enc alen want).
Proof. exact expand_name_safe. Qed.
Print Assumptions C02_expand_name_safe.

Theorem C02_expand_string_safe : forall abuf enc alen want,
  alen <= Z.of_nat (length abuf) -> alen < 2 ^ 31 ->
  safe (fun _ => True) (expand_string abuf enc alen want).
Proof. exact expand_string_safe. Qed.
Print Assumptions C02_expand_string_safe.
