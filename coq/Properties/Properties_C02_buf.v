(* C02 (byte-read primitives): theorems about Gallina REGENERATED from src/lib/str/ares_buf.c on
   every run (gen/c2gallina.py with ares_buf_fetch / ares_buf_tag_fetch / ares_buf_len /
   ares_buf_consume inlined; the data region is an arbitrary function index -> byte with bounds
   [0, data_len), every byte access and memcpy source range carries an explicit OutOfBounds
   guard in the generated text).  "reads nothing outside the supplied buffer" for the
   primitives every parser in the library is built from. *)
From CAres.Base Require Import CInt.
From CAres.Gen Require Import Consts LeafFns.
From CAres.Dsa Require Import BufFetch_proofs.
Local Open Scope Z_scope.
Local Open Scope bool_scope.

Theorem C02_fetch_be16_no_ub : forall p dl off mem old,
  cursor_ok dl off -> is_ub (c_ares_buf_fetch_be16 p dl off mem old) = false.
Proof. exact fetch_be16_no_ub. Qed.
Print Assumptions C02_fetch_be16_no_ub.

Theorem C02_fetch_be32_no_ub : forall p dl off mem old,
  cursor_ok dl off -> is_ub (c_ares_buf_fetch_be32 p dl off mem old) = false.
Proof. exact fetch_be32_no_ub. Qed.
Print Assumptions C02_fetch_be32_no_ub.

Theorem C02_fetch_bytes_no_ub : forall len p dl off mem,
  cursor_ok dl off -> 0 <= len < 2 ^ 64 -> is_ub (c_ares_buf_fetch_bytes len p dl off mem) = false.
Proof. exact fetch_bytes_no_ub. Qed.
Print Assumptions C02_fetch_bytes_no_ub.

Theorem C02_fetch_bytes_dup_no_ub : forall len nt p dl off m mem old,
  cursor_ok dl off -> 0 <= len < 2 ^ 64 -> is_ub (c_ares_buf_fetch_bytes_dup len nt p dl off m mem old) = false.
Proof. exact fetch_bytes_dup_no_ub. Qed.
Print Assumptions C02_fetch_bytes_dup_no_ub.

Theorem C02_peek_byte_no_ub : forall p dl off mem old,
  cursor_ok dl off -> is_ub (c_ares_buf_peek_byte p dl off mem old) = false.
Proof. exact peek_byte_no_ub. Qed.
Print Assumptions C02_peek_byte_no_ub.

Theorem C02_tag_fetch_bytes_no_ub : forall tag off p lend dl mem,
  cursor_ok dl off -> (tag = 2 ^ 64 - 1 \/ 0 <= tag <= off) ->
  is_ub (c_ares_buf_tag_fetch_bytes tag p off lend dl mem) = false.
Proof. exact tag_fetch_bytes_no_ub. Qed.
Print Assumptions C02_tag_fetch_bytes_no_ub.

(* exact behaviour: fail without moving the cursor, or consume exactly the bytes asked for and
   return their big-endian value *)
Theorem C02_fetch_be16_spec : forall p dl off mem old,
  cursor_ok dl off ->
  c_ares_buf_fetch_be16 p dl off mem old =
    if (p =? 0) || (dl - off <? 2)
    then Ok (ARES_EBADRESP, off, old)
    else Ok (ARES_SUCCESS, off + 2, byte mem off * 256 + byte mem (off + 1)).
Proof. exact fetch_be16_spec. Qed.
Print Assumptions C02_fetch_be16_spec.

Theorem C02_fetch_bytes_spec : forall len p dl off mem,
  cursor_ok dl off -> 0 <= len < 2 ^ 64 ->
  c_ares_buf_fetch_bytes len p dl off mem =
    if (p =? 0) || (len =? 0) || (dl - off <? len)
    then Ok (ARES_EBADRESP, off)
    else Ok (ARES_SUCCESS, off + len).
Proof. exact fetch_bytes_spec. Qed.
Print Assumptions C02_fetch_bytes_spec.

Theorem C02_peek_byte_spec : forall p dl off mem old,
  cursor_ok dl off ->
  c_ares_buf_peek_byte p dl off mem old =
    if (p =? 0) || (dl - off =? 0)
    then Ok (ARES_EBADRESP, old)
    else Ok (ARES_SUCCESS, byte mem off).
Proof. exact peek_byte_spec. Qed.
Print Assumptions C02_peek_byte_spec.
