(* C20 - outcome does not depend on how the transport chops or delays bytes.
   Statements only; model in Core/Frame.v, proofs in Core/Frame_proofs.v. *)
From CAres.Base Require Import CInt.
From CAres.Gen Require Import Consts LeafFns.
From CAres.Core Require Import Frame Frame_proofs.
Local Open Scope Z_scope.

(* Any way of chopping the server's byte stream into reads (any grouping of reads into read
   events, spurious wake-ups included; [call_ok]: no disconnect reported) hands to
   process_answer exactly the complete frames of the stream, in order, up to the first message
   process_answer rejects ([cut]); the incomplete rest stays buffered.  [pa] (does
   process_answer accept these bytes) and the reclaim decision of every append are arbitrary. *)
Theorem C20_read_segmentation : forall (pa : list Z -> bool) (calls : list (list rd)),
  Forall call_ok calls ->
  Z.of_nat (length (total_bytes calls)) < SIZE_MAX ->
  exists b', run_reads pa true buf_create calls
               = Ok (b', fst (cut pa (fst (frames (total_bytes calls)))),
                         snd (cut pa (fst (frames (total_bytes calls))))) /\
             (snd (cut pa (fst (frames (total_bytes calls)))) = StillOpen ->
                remaining b' = snd (frames (total_bytes calls))).
Proof. exact read_segmentation. Qed.
Print Assumptions C20_read_segmentation.

(* ... hence segmented and unsegmented transfer of the same stream are indistinguishable. *)
Theorem C20_read_segmentation_equiv : forall (pa : list Z -> bool) (calls1 calls2 : list (list rd)),
  Forall call_ok calls1 -> Forall call_ok calls2 ->
  total_bytes calls1 = total_bytes calls2 ->
  Z.of_nat (length (total_bytes calls1)) < SIZE_MAX ->
  exists b1 b2 ms e,
    run_reads pa true buf_create calls1 = Ok (b1, ms, e) /\
    run_reads pa true buf_create calls2 = Ok (b2, ms, e) /\
    (e = StillOpen -> remaining b1 = remaining b2).
Proof. exact read_segmentation_equiv. Qed.
Print Assumptions C20_read_segmentation_equiv.

(* [frames] is the intended specification: a stream made of well-formed frames followed by an
   incomplete rest decomposes into exactly these. *)
Theorem C20_frames_spec : forall ms tl, Forall small ms -> incomplete tl ->
  frames (flat_map frame ms ++ tl) = (ms, tl).
Proof. intros ms tl H1 H2. apply parses_frames, parses_flat_map; assumption. Qed.
Print Assumptions C20_frames_spec.
