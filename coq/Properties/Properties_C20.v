(* C20 - outcome does not depend on how the transport chops or delays bytes.
   Statements only; model in Core/Frame.v, proofs in Core/Frame_proofs.v. *)
From CAres.Base Require Import CInt.
From CAres.Gen Require Import Consts LeafFns.
From CAres.Core Require Import Frame Frame_proofs.
Local Open Scope Z_scope.

(* READ SIDE (TCP).  Any way of chopping the server's byte stream into reads (any grouping of
   reads into read events, spurious wake-ups included; [call_ok]: no disconnect reported)
   hands to process_answer exactly the complete frames of the stream, in order, up to the
   first message process_answer rejects ([cut]: the connection is then closed); the
   incomplete rest stays buffered.  [pa] (does process_answer accept these bytes) and the
   reclaim decision of every append are arbitrary.  No UB, no fuel exhaustion ([= Ok ..]). *)
Theorem C20_read_segmentation : forall (pa : list Z -> bool) (calls : list (list rd)),
  Forall call_ok calls ->
  Z.of_nat (length (total_bytes calls)) < SIZE_MAX ->
  exists b', run_reads pa true buf_create calls
               = Ok (b', fst (cut pa (fst (frames (total_bytes calls)))),
                         snd (cut pa (fst (frames (total_bytes calls))))) /\
             (snd (cut pa (fst (frames (total_bytes calls)))) = StillOpen ->
                remaining b' = snd (frames (total_bytes calls))).
Proof. exact read_segmentation. Qed.
Print Assumptions C20_read_segmentation.

(* ... hence segmented and unsegmented transfer of the same stream are indistinguishable. *)
Theorem C20_read_segmentation_equiv : forall (pa : list Z -> bool) (calls1 calls2 : list (list rd)),
  Forall call_ok calls1 -> Forall call_ok calls2 ->
  total_bytes calls1 = total_bytes calls2 ->
  Z.of_nat (length (total_bytes calls1)) < SIZE_MAX ->
  exists b1 b2 ms e,
    run_reads pa true buf_create calls1 = Ok (b1, ms, e) /\
    run_reads pa true buf_create calls2 = Ok (b2, ms, e) /\
    (e = StillOpen -> remaining b1 = remaining b2).
Proof. exact read_segmentation_equiv. Qed.
Print Assumptions C20_read_segmentation_equiv.

(* [frames] is the intended specification: a stream made of well-formed frames followed by an
   incomplete rest decomposes into exactly these. *)
Theorem C20_frames_spec : forall ms tl, Forall small ms -> incomplete tl ->
  frames (flat_map frame ms ++ tl) = (ms, tl).
Proof. exact frames_spec. Qed.
Print Assumptions C20_frames_spec.

(* WRITE SIDE (TCP).  For every sequence of operations on a connection (queries queued by
   ares_conn_query_write, write events, ares_process_pending_write; with or without a
   pending-write callback) and every acceptance pattern of the socket ([Cap n]: room for n
   bytes, n <= 0 would-block; [CapFail]: hard error; an exhausted list blocks), what the peer
   has received is a prefix of the concatenation of the framed queued messages, whole and in
   order, and while the connection lives the rest is exactly what is still pending. *)
Theorem C20_write_acceptance : forall ops c pcb np ws,
  c_tcp c = true -> owf c ->
  data_len (c_out c) + Z.of_nat (length (flat_map frame (enqueued ops))) < SIZE_MAX ->
  exists c' evs e rest, run_wops c pcb np ops ws = Ok (c', evs, e) /\
    server_bytes evs ++ rest = remaining (c_out c) ++ flat_map frame (enqueued ops) /\
    (e = StillOpen -> rest = remaining (c_out c') /\ owf c' /\ c_tcp c' = true).
Proof. exact write_acceptance. Qed.
Print Assumptions C20_write_acceptance.

(* "... once the pattern has accepted enough": a write event with room for n > 0 bytes takes
   min(n, pending) bytes off the pending data, and write interest stays announced exactly
   while bytes remain (so the event loop calls again). *)
Theorem C20_write_progress : forall c n ws,
  c_tcp c = true -> owf c -> c_connected c = true -> c_tfo_initial c = false -> 0 < n ->
  exists c' st evs ws', conn_flush c (Cap n :: ws) = Ok (c', st, evs, ws') /\ st = ARES_SUCCESS /\
    length (remaining (c_out c')) = (length (remaining (c_out c)) - Z.to_nat n)%nat /\
    c_rw c' = want_flags false (remaining (c_out c')).
Proof. exact write_progress. Qed.
Print Assumptions C20_write_progress.

(* UDP: every queued message leaves as exactly one datagram, without the length prefix, in
   order, until the socket blocks or fails ([udp_sent]); the rest stays queued, framed.
   [big_or_block]: a datagram socket accepts a datagram whole or not at all. *)
Theorem C20_udp_datagrams : forall msgs c ws,
  c_tcp c = false -> owf c -> remaining (c_out c) = flat_map frame msgs -> Forall small msgs ->
  Forall big_or_block ws ->
  exists c' st evs ws', conn_flush c ws = Ok (c', st, evs, ws') /\
    server_dgrams evs = firstn (udp_sent msgs ws) msgs /\
    remaining (c_out c') = flat_map frame (skipn (udp_sent msgs ws) msgs).
Proof. exact udp_datagrams. Qed.
Print Assumptions C20_udp_datagrams.

(* UDP read: every datagram of a read event reaches process_answer whole and in order. *)
Theorem C20_udp_read : forall (pa : list Z -> bool) ds d off,
  0 <= off <= Z.of_nat (length d) -> skipn (Z.to_nat off) d = [] ->
  Forall small (map snd ds) ->
  Z.of_nat (length d) + Z.of_nat (length (flat_map frame (map snd ds))) < SIZE_MAX ->
  exists b', process_read pa false (mkbuf d off SIZE_MAX) (dgram_rds ds ++ [RdWouldBlock])
               = Ok (b', fst (cut pa (map snd ds)), snd (cut pa (map snd ds))) /\
             (snd (cut pa (map snd ds)) = StillOpen -> remaining b' = [] /\ wf b').
Proof. exact udp_read. Qed.
Print Assumptions C20_udp_read.

(* A zero length datagram is harmless (model of the code WITH fixes/C20-zerolen-datagram-count:
   ares_socket_recvfrom stores 0 in *read_bytes). *)
Theorem C20_zero_datagram_inert : forall (pa : list Z -> bool), pa [] = true ->
  forall ds1 ds2 rc d off,
  0 <= off <= Z.of_nat (length d) -> skipn (Z.to_nat off) d = [] ->
  Forall small (map snd (ds1 ++ ds2)) ->
  Z.of_nat (length d) + Z.of_nat (length (flat_map frame (map snd (ds1 ++ (rc, []) :: ds2)))) < SIZE_MAX ->
  exists b1 ms1 b2 ms2 e,
    process_read pa false (mkbuf d off SIZE_MAX) (dgram_rds (ds1 ++ (rc, []) :: ds2) ++ [RdWouldBlock]) = Ok (b1, ms1, e) /\
    process_read pa false (mkbuf d off SIZE_MAX) (dgram_rds (ds1 ++ ds2) ++ [RdWouldBlock]) = Ok (b2, ms2, e) /\
    filter nonempty ms1 = filter nonempty ms2 /\
    (e = StillOpen -> remaining b1 = [] /\ remaining b2 = []).
Proof. exact zero_datagram_inert. Qed.
Print Assumptions C20_zero_datagram_inert.

(* Truncation: process_answer's decision chain re-sends over TCP exactly when a matching,
   valid answer with TC arrives on UDP and IGNTC is not set; the callback is not invoked, the
   query is requeued and its next transmission uses a TCP connection. *)
Theorem C20_tc_upgrade : forall found same_q on_conn cookie_ok edns_issue rflags conn_tcp chan_flags rcode,
  process_answer_decide found same_q on_conn cookie_ok edns_issue rflags conn_tcp chan_flags rcode = PaRetryTcp
  <-> (found = true /\ same_q = true /\ on_conn = true /\ cookie_ok = true /\ edns_issue = false /\
       has_flag rflags ARES_FLAG_TC = true /\ conn_tcp = false /\ has_flag chan_flags ARES_FLAG_IGNTC = false).
Proof. exact tc_upgrade. Qed.
Print Assumptions C20_tc_upgrade.

Theorem C20_tc_upgrade_effect : forall a using_tcp, a = PaRetryTcp ->
  callback_invoked a = false /\ requeued a = true /\ next_conn_is_tcp (using_tcp_after a using_tcp) = true.
Proof. exact tc_upgrade_effect. Qed.
Print Assumptions C20_tc_upgrade_effect.

(* ... and the switch does not consume a try: the query is requeued with an unchanged try count
   whatever is left of its budget (model of: the TC branch calls ares_append_requeue(), not
   ares_requeue_query(inc_try_count)). *)
Theorem C20_tc_upgrade_keeps_budget : forall try_count max_tries no_retries,
  after_answer PaRetryTcp try_count max_tries no_retries = FRequeued try_count.
Proof. exact tc_upgrade_keeps_budget. Qed.
Print Assumptions C20_tc_upgrade_keeps_budget.

Theorem C20_tc_ignored : forall found same_q on_conn cookie_ok edns_issue rflags conn_tcp chan_flags rcode,
  conn_tcp = true \/ has_flag chan_flags ARES_FLAG_IGNTC = true ->
  process_answer_decide found same_q on_conn cookie_ok edns_issue rflags conn_tcp chan_flags rcode
  = process_answer_decide found same_q on_conn cookie_ok edns_issue 0 conn_tcp chan_flags rcode.
Proof. exact tc_ignored. Qed.
Print Assumptions C20_tc_ignored.

(* Disconnects: a connection failure (EOF, reset, error) reported in the same read event as
   data - possible after reads that filled the buffer - is handled after that data has been
   processed: the event delivers exactly what it delivers without the failure, only the
   connection is closed afterwards.  (Model of the code WITH
   fixes/C20-process-data-before-conn-error.patch; the pinned code discarded the data, which
   was the "TODO" in process_read().)  No hypothesis on earlier events, bytes or pa. *)
Theorem C20_data_before_disconnect : forall (pa : list Z -> bool) calls b rs,
  ends_in_failure rs = true ->
  run_reads pa true b (calls ++ [rs]) = closed_of (run_reads pa true b (calls ++ [strip_fail rs])).
Proof. exact data_before_disconnect. Qed.
Print Assumptions C20_data_before_disconnect.

(* THE BUFFER ABSTRACTION IS SOUND.  Frame.v's buffer (data, offset, tag; "did ensure_space
   reclaim?" as an input of every append) against the full ares_buf model of Dsa/Buf.v (memory
   block, data_len, alloc_buf_len, ares_buf_ensure_space with its doubling loop, ares_buf_reclaim
   with memmove, allocator answers, junk in fresh memory), through the reference
   specification [bspec] both refine:  whatever the faithful buffer does on a successful
   ares_buf_append / ares_buf_append_start+finish, Frame.buf_append does for one of the two
   values of its reclaim input; the cursor operations (the same generated functions) refine
   the same specification functions with the same status.  So the theorems above, which hold
   for ALL reclaim decisions, cover the reclaim timing alloc_buf_len actually produces. *)
From CAres.Dsa Require Buf Buf_proofs.
From CAres.Core Require Import Frame_buf_sound.

Theorem C20_buf_append_sound : forall junk ok cb b bytes cb',
  Buf_proofs.buf_inv cb -> fwf b -> fabs b = Buf.buf_abs cb ->
  Buf.buf_zlen bytes < Buf.BUF_ALLOC_LIMIT -> Buf.buf_zlen bytes <> 0 ->
  Buf.buf_zlen (fdata b) + Buf.buf_zlen bytes < Buf.BUF_SIZE_MAX ->
  Buf.buf_append junk ok cb bytes = Ok (ARES_SUCCESS, cb') ->
  exists rc b', Frame.buf_append b rc bytes = Ok b' /\ fwf b' /\ fabs b' = Buf.buf_abs cb'.
Proof. exact frame_append_covers. Qed.
Print Assumptions C20_buf_append_sound.

Theorem C20_buf_append_start_sound : forall junk ok cb b want bytes k cb',
  Buf_proofs.buf_inv cb -> fwf b -> fabs b = Buf.buf_abs cb ->
  0 < want < Buf.BUF_ALLOC_LIMIT -> Buf.buf_zlen bytes <= want ->
  Buf.buf_zlen (fdata b) + Buf.buf_zlen bytes < Buf.BUF_SIZE_MAX ->
  Buf.buf_append_via_start junk ok cb want bytes = Ok (1, k, cb') ->
  exists rc b', Frame.buf_append b rc bytes = Ok b' /\ fwf b' /\ fabs b' = Buf.buf_abs cb' /\ k = Buf.buf_zlen bytes.
Proof. exact frame_append_start_covers. Qed.
Print Assumptions C20_buf_append_start_sound.

Theorem C20_buf_consume_sound : forall b n, fwf b -> 0 <= n ->
  exists st b', Frame.buf_consume b n = Ok (st, b') /\ fwf b' /\ (st, fabs b') = Buf.bufs_consume (fabs b) n.
Proof. exact f_consume_refines. Qed.
Print Assumptions C20_buf_consume_sound.

Theorem C20_buf_tag_rollback_sound : forall b, fwf b ->
  exists st b', Frame.buf_tag_rollback b = Ok (st, b') /\ fwf b' /\ (st, fabs b') = Buf.bufs_tag_rollback (fabs b).
Proof. exact f_tag_rollback_refines. Qed.
Print Assumptions C20_buf_tag_rollback_sound.
