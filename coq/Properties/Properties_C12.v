(* C12 - search-list expansion follows resolv.conf semantics.  Statements only; the model and
   the specification are in Core/Search.v, the proofs in Core/Search_proofs.v. *)
From CAres.Base Require Import Outcome.
From CAres.Gen Require Import Consts.
From CAres.Core Require Import Search Search_proofs.

(* The candidate list built by ares_search_name_list (C-shaped model: zeroed array, indexed
   stores, the two as-is branches and the concatenation loop) is exactly the resolv.conf(5)
   list, with every slot filled and no store outside the allocation - for every name, ndots,
   domain list, flag word and HOSTALIASES environment. *)
Theorem C12_candidates : forall cfg nm env al,
  lookup_hostaliases (c_flags cfg) nm env = Ok al ->
  search_name_list cfg nm env = Ok (map Some (spec_candidates cfg al nm)).
Proof. exact search_name_list_spec. Qed.
Print Assumptions C12_candidates.

Theorem C12_candidates_alias_error : forall cfg nm env s,
  lookup_hostaliases (c_flags cfg) nm env = Err s -> search_name_list cfg nm env = Err s.
Proof. exact search_name_list_alias_error. Qed.
Print Assumptions C12_candidates_alias_error.

(* "a host alias applies" only without NOALIASES, only to names without any dot, and yields a
   non-empty host name of at most 255 characters *)
Theorem C12_alias_applies : forall flags nm env a,
  lookup_hostaliases flags nm env = Ok (Some a) ->
  flag_set flags ARES_FLAG_NOALIASES = false /\ count_dots nm = 0%nat /\
  a <> [] /\ (length a <= 255)%nat /\ forallb is_hostnamech a = true.
Proof. exact lookup_hostaliases_some. Qed.
Print Assumptions C12_alias_applies.

(* search_callback/ares_search_next (with fixes/C12-search-nodata-final.patch): for every
   candidate list and every assignment of outcomes to candidates the names queried and the
   final status satisfy the stop rule *)
Theorem C12_stop_rule : forall names o, names <> [] ->
  exists queried final, search_run true names o = Ok (queried, final) /\ stop_rule names o queried final.
Proof. exact search_run_stop_rule. Qed.
Print Assumptions C12_stop_rule.

(* the stop rule determines the queried names and the status uniquely ... *)
Theorem C12_stop_rule_unique : forall names o q1 f1 q2 f2,
  stop_rule names o q1 f1 -> stop_rule names o q2 f2 -> q1 = q2 /\ f1 = f2.
Proof. exact stop_rule_functional. Qed.
Print Assumptions C12_stop_rule_unique.

(* ... and the executable oracle used on the implementation's traces computes it *)
Theorem C12_oracle_is_stop_rule : forall names o, names <> [] ->
  stop_rule names o (spec_queried names o) (spec_status names o).
Proof. exact spec_satisfies_stop_rule. Qed.
Print Assumptions C12_oracle_is_stop_rule.

(* host_callback/next_lookup of ares_getaddrinfo (one address family, lookups "b") *)
Theorem C12_stop_rule_getaddrinfo : forall names o, names <> [] ->
  ai_run names o = Ok (spec_queried names (fun i => ai_status (o i)),
                       spec_status names (fun i => ai_status (o i))).
Proof. exact ai_run_correct. Qed.
Print Assumptions C12_stop_rule_getaddrinfo.

(* ares_getaddrinfo with AF_UNSPEC (an A and an AAAA query per candidate), with
   fixes/C12-gai-unspec-nodata.patch: same rule over the status of a candidate, which is data
   if either family gave addresses, else the status of the query that completed last, a
   no-data answer of the one that completed first being remembered (ai2_combine) *)
Theorem C12_stop_rule_getaddrinfo_unspec : forall names o, names <> [] ->
  ai2_run true names o =
  Ok (spec_queried names (fun i => ai_status (ai2_combine (cand_single names i) (fst (o i)) (snd (o i)))),
      spec_status names (fun i => ai_status (ai2_combine (cand_single names i) (fst (o i)) (snd (o i))))).
Proof. exact ai2_run_correct. Qed.
Print Assumptions C12_stop_rule_getaddrinfo_unspec.

(* the pinned code forgets a no-data answer of the family that completes first: "h" exists
   without A data (answered first), the AAAA answer says not found -> ENOTFOUND instead of
   ENODATA ("reports no-data if any candidate existed without data") *)
Theorem C12_unspec_nodata_pinned_refuted :
  ai2_run false [[104%N]] unspec_outcomes = Ok ([[104%N]], ARES_ENOTFOUND) /\
  ai2_run true [[104%N]] unspec_outcomes = Ok ([[104%N]], ARES_ENODATA).
Proof. exact ai2_pinned_refuted. Qed.
Print Assumptions C12_unspec_nodata_pinned_refuted.

(* The pinned search_callback does NOT satisfy the rule: "h" with search domain "d", ndots 1,
   "h.d" without data, then SERVFAIL for the single label "h" reports SERVFAIL, not no-data. *)
Theorem C12_stop_rule_pinned_refuted :
  search_run false refute_names refute_outcomes = Ok (refute_names, ARES_ESERVFAIL) /\
  spec_status refute_names refute_outcomes = ARES_ENODATA /\
  ~ stop_rule refute_names refute_outcomes refute_names ARES_ESERVFAIL.
Proof. exact search_run_pinned_refuted. Qed.
Print Assumptions C12_stop_rule_pinned_refuted.

(* and that is the only difference between the pinned and the fixed code *)
Theorem C12_pinned_difference : forall names o, names <> [] ->
  search_run false names o = Ok (spec_queried names o, spec_status names o) \/
  (first_stop names o 0 names = None /\ nodata_in o 0 (length names) = true /\
   (o (pred (length names)) = ARES_ESERVFAIL \/ o (pred (length names)) = ARES_EREFUSED) /\
   search_run false names o = Ok (names, o (pred (length names))) /\
   spec_status names o = ARES_ENODATA).
Proof. exact search_run_pinned. Qed.
Print Assumptions C12_pinned_difference.
