(* C17 - DNS cookies follow the RFC 7873 client state machine.  Statements only; proofs in Core/Cookie_proofs.v *)
From CAres.Base Require Import CInt.
From CAres.Core Require Import Cookie CookieSpec Cookie_proofs.
From CAres.Gen Require Import Consts LeafFns.

Theorem C17_never_on_tcp_step : forall ck rq ip now rnd ck' rq' st n,
  cookie_apply ck rq true ip now rnd = Ok (ck', rq', st, n) -> cookie_of rq' = None /\ ck' = ck.
Proof. exact apply_never_on_tcp. Qed.
Print Assumptions C17_never_on_tcp_step.
