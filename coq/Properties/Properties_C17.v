(* C17 - DNS cookies follow the RFC 7873 client state machine.
   Statements only; definitions in Core/Cookie.v (model of ares_cookie.c), Core/CookieSpec.v (the
   property as a monitor over event/observation traces), proofs in Core/Cookie_proofs.v.

   [wf_event]: source addresses are known (AF_INET / AF_INET6), times are in [1 s, 2^40 s) with
   usec < 10^6 (NOT assumed monotone), every ares_rand_bytes answer is 8 bytes.
   [exec sys_init evs = Ok os]: the model runs the history without reaching C undefined behaviour.
   [judge ghost_init evs os]: the violations the monitor finds in the trace. *)
From CAres.Base Require Import CInt.
From CAres.Core Require Import Cookie CookieSpec Cookie_proofs.
From CAres.Gen Require Import Consts LeafFns.
From CAres.Core Require Accept Accept_proofs CookieAccept_proofs.

(* the generated time predicates mean what the constants' comments say (exact, in microseconds) *)
Theorem C17_timeval_expired_exact : forall t now ms,
  tv_ok0 t -> tv_ok0 now -> (0 <= ms < 2 ^ 31)%Z -> timeval_expired t now ms = Ok (elapsed_ge t now ms).
Proof. exact expired_spec. Qed.
Print Assumptions C17_timeval_expired_exact.

(* every timestamp the clock can produce counts as "set" (false for the unrepaired `&&`) *)
Theorem C17_timeval_is_set_exact : forall t, tv_ok t -> timeval_is_set t = Ok true.
Proof. exact is_set_ok. Qed.
Print Assumptions C17_timeval_is_set_exact.

(* all histories: no undefined behaviour and the monitor has no complaint of any kind *)
Theorem C17_all_histories_clean : forall evs,
  Forall wf_event evs -> exists os, exec sys_init evs = Ok os /\ judge ghost_init evs os = [].
Proof. exact history_clean. Qed.
Print Assumptions C17_all_histories_clean.

Theorem C17_client_stable : forall evs,
  Forall wf_event evs -> exists os, exec sys_init evs = Ok os /\ ~ In V_client_unstable (judge ghost_init evs os).
Proof. exact (clean_kind V_client_unstable). Qed.
Print Assumptions C17_client_stable.

Theorem C17_echo_latest : forall evs,
  Forall wf_event evs -> exists os, exec sys_init evs = Ok os /\ ~ In V_echo (judge ghost_init evs os).
Proof. exact (clean_kind V_echo). Qed.
Print Assumptions C17_echo_latest.

(* ares_addr_equal (the model of it: family, then 4 resp. all 16 address bytes) decides plain
   equality of source addresses; the monitor's own notion [addr_same] is that plain equality *)
Theorem C17_addr_equal_decides_equality : forall a b,
  ip_known a -> ip_known b -> (addr_equal a b = true <-> a = b).
Proof. exact addr_equal_iff. Qed.
Print Assumptions C17_addr_equal_decides_equality.

(* for ALL pairs of distinct source addresses (any family, any differing byte): the transmission
   from b after the record belonged to a sends a client cookie generated at this step (the first
   random block drawn now), no server cookie, and the record now belongs to b *)
Theorem C17_rotation_on_any_source_change : forall ck rq a b now rnd,
  rq <> NoOpt -> ip_known a -> ip_known b -> a <> b -> tv_ok now -> live_ok ck -> ck_client_ip ck = a ->
  exists ck', cookie_apply ck rq false b now rnd = Ok (ck', OptCookie (rnd 0%nat ++ []), ARES_SUCCESS, 1%nat) /\
    ck_client ck' = rnd 0%nat /\ ck_server_len ck' = 0%nat /\ ck_client_ip ck' = b /\ ck_client_ts ck' = now.
Proof. exact rotation_on_source_change. Qed.
Print Assumptions C17_rotation_on_any_source_change.

(* converse: same source address and no timer due -> the same cookie, nothing changes *)
Theorem C17_stable_on_same_source : forall ck rq b now rnd,
  rq <> NoOpt -> ip_known b -> tv_ok now -> live_ok ck -> ck_client_ip ck = b ->
  apply_regress_b ck now = false ->
  ((ck_state ck =? ARES_COOKIE_SUPPORTED)%Z && elapsed_ge (ck_client_ts ck) now COOKIE_CLIENT_TIMEOUT_MS) = false ->
  cookie_apply ck rq false b now rnd =
  Ok (ck, OptCookie (ck_client ck ++ firstn (ck_server_len ck) (ck_server ck)), ARES_SUCCESS, 0%nat).
Proof. exact stable_on_same_source. Qed.
Print Assumptions C17_stable_on_same_source.

(* the record always carries the address of the last cookie-bearing transmission *)
Theorem C17_apply_records_source : forall ck rq a now rnd ck' c st n,
  rq <> NoOpt -> ip_known a -> tv_ok now -> live_ok ck -> ip_known (ck_client_ip ck) ->
  cookie_apply ck rq false a now rnd = Ok (ck', OptCookie c, st, n) -> ck_client_ip ck' = a.
Proof. exact apply_records_source. Qed.
Print Assumptions C17_apply_records_source.

(* over all histories: after a change of the source address (plain inequality) the client part sent is
   a random block drawn during that transmission - no two source addresses share a cookie *)
Theorem C17_source_never_shared : forall evs,
  Forall wf_event evs -> exists os, exec sys_init evs = Ok os /\ ~ In V_source_shared (judge ghost_init evs os).
Proof. exact (clean_kind V_source_shared). Qed.
Print Assumptions C17_source_never_shared.

(* for ALL histories, well-formed or not *)
Theorem C17_never_on_tcp : forall evs os,
  exec sys_init evs = Ok os -> forall st r n, In (OApply true st r n) os -> cookie_of r = None.
Proof. exact never_on_tcp_all. Qed.
Print Assumptions C17_never_on_tcp.

Theorem C17_cookie_sent_over_udp : forall evs,
  Forall wf_event evs -> exists os, exec sys_init evs = Ok os /\ ~ In V_cookie_missing (judge ghost_init evs os).
Proof. exact (clean_kind V_cookie_missing). Qed.
Print Assumptions C17_cookie_sent_over_udp.

Theorem C17_supported_requires_cookie : forall evs,
  Forall wf_event evs -> exists os, exec sys_init evs = Ok os /\ ~ In V_supported_accepts (judge ghost_init evs os).
Proof. exact (clean_kind V_supported_accepts). Qed.
Print Assumptions C17_supported_requires_cookie.

Theorem C17_mismatch_dropped : forall evs,
  Forall wf_event evs -> exists os, exec sys_init evs = Ok os /\ ~ In V_mismatch_accepted (judge ghost_init evs os).
Proof. exact (clean_kind V_mismatch_accepted). Qed.
Print Assumptions C17_mismatch_dropped.

Theorem C17_valid_accepted : forall evs,
  Forall wf_event evs -> exists os, exec sys_init evs = Ok os /\ ~ In V_valid_dropped (judge ghost_init evs os).
Proof. exact (clean_kind V_valid_dropped). Qed.
Print Assumptions C17_valid_accepted.

(* every requeue decided by the cookie code: not delivered, retry budget untouched, at most
   COOKIE_RESEND_MAX per query, the last one switches the query to TCP *)
Theorem C17_badcookie_bound : forall evs,
  Forall wf_event evs -> exists os, exec sys_init evs = Ok os /\ Forall requeue_ok os.
Proof. exact badcookie_bound_all. Qed.
Print Assumptions C17_badcookie_bound.

Theorem C17_badcookie_monitor : forall evs,
  Forall wf_event evs -> exists os, exec sys_init evs = Ok os /\
    ~ In V_badcookie (judge ghost_init evs os) /\ ~ In V_badcookie_bound (judge ghost_init evs os).
Proof. exact badcookie_monitor_all. Qed.
Print Assumptions C17_badcookie_monitor.

(* a server that never returns cookies (and never answers BADCOOKIE): every response is accepted *)
Theorem C17_unsupported_server_usable : forall evs,
  Forall wf_event evs -> Forall plain_response evs ->
  exists os, exec sys_init evs = Ok os /\ Forall accepted os.
Proof. exact unsupported_usable_all. Qed.
Print Assumptions C17_unsupported_server_usable.

Theorem C17_unsupported_monitor : forall evs,
  Forall wf_event evs -> exists os, exec sys_init evs = Ok os /\ ~ In V_unsup_dropped (judge ghost_init evs os).
Proof. exact (clean_kind V_unsup_dropped). Qed.
Print Assumptions C17_unsupported_monitor.

(* the hypotheses are satisfiable by a history that crosses the timers on a clock with usec = 0 *)
Theorem C17_example_history_wf : Forall wf_event ex_history.
Proof. exact ex_history_wf. Qed.
Print Assumptions C17_example_history_wf.

Theorem C17_example_history_trace :
  exec sys_init ex_history = Ok
    [ OApply false ARES_SUCCESS (OptCookie [1; 2; 3; 4; 5; 6; 7; 8]%Z) 1;
      OValidate ARES_SUCCESS None 0%Z false;
      OApply false ARES_SUCCESS (OptCookie ([1; 2; 3; 4; 5; 6; 7; 8]%Z ++ ex_srv)) 0;
      OValidate ARES_EBADRESP None 0%Z false;
      OApply false ARES_SUCCESS (OptCookie ([1; 2; 3; 4; 5; 6; 7; 8]%Z ++ ex_srv)) 0;
      OApply false ARES_SUCCESS (OptCookie [11; 2; 3; 4; 5; 6; 7; 8]%Z) 1;
      OValidate ARES_SUCCESS None 0%Z false;
      OApply false ARES_SUCCESS OptOnly 0;
      OApply true ARES_SUCCESS OptOnly 0 ].
Proof. exact ex_history_exec. Qed.
Print Assumptions C17_example_history_trace.

(* FINDING (kept open): with an unknown source address the client part is NOT stable *)
Theorem C17_client_stable_unknown_source_refuted :
  exists evs, Forall wf_event_any evs /\ run sys_init ghost_init evs = Ok [V_client_unstable].
Proof. exact unspec_refuted. Qed.
Print Assumptions C17_client_stable_unknown_source_refuted.

(* ORDER of the checks in process_answer() (model: Core/Accept.v): a reply that fails the cookie checks
   is inert - no output (callback, cache insertion, server state), and apart from the server's cookie
   record the channel is unchanged: the query keeps its OPT RR and cookie, stays on its connection, is
   not re-sent.  Holds for every rcode and with or without an OPT RR in the reply, i.e. the
   "server may not understand EDNS" fallback cannot run before ares_cookie_validate(). *)
Theorem C17_cookie_drop_is_inert : forall cfg st cn sv s u p st' outs,
  (forall q, Accept.find_query st (Accept.p_id p) = Some q -> Accept.cookie_ok (Accept.sv_cookie sv) q p = false) ->
  Accept.process_answer cfg st cn sv s u (Accept.DParsed p) = Ok (st', outs) ->
  outs = [] /\ Accept_proofs.same_but_cookies st' st.
Proof. exact CookieAccept_proofs.cookie_drop_is_inert. Qed.
Print Assumptions C17_cookie_drop_is_inert.

(* no cookie downgrade: server state SUPPORTED, request carried a cookie, reply without server cookie *)
Theorem C17_no_cookie_downgrade : forall cfg st cn sv s u p st' outs,
  Accept.ck_state (Accept.sv_cookie sv) = C05_COOKIE_SUPPORTED ->
  (forall q, Accept.find_query st (Accept.p_id p) = Some q -> exists rc, Accept.q_cookie q = Some rc) ->
  (Accept.p_cookie p = None \/
   (exists pc, Accept.p_cookie p = Some pc /\ (Accept.zlen pc <= 8)%Z /\ Accept.p_rcode p <> ARES_RCODE_BADCOOKIE)) ->
  Accept.process_answer cfg st cn sv s u (Accept.DParsed p) = Ok (st', outs) ->
  outs = [] /\ Accept_proofs.same_but_cookies st' st.
Proof. exact CookieAccept_proofs.no_cookie_downgrade. Qed.
Print Assumptions C17_no_cookie_downgrade.
