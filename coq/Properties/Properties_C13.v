(* C13 - address lookups return exactly the addresses the answers contain.
   FUNCTION-LEVEL part only (no channel): the conversions every lookup result goes through.
   The end-to-end statement (C13_multiset over getaddrinfo/gethostbyname with the two
   sub-queries, hosts file, literals) needs the channel simulator and is NOT claimed here.
   Statements only; proofs in Legacy/AddrInfo_proofs.v and Legacy/Legacy_proofs.v. *)
From Coq Require Import Permutation Sorted.
From CAres.Legacy Require Import Rec Legacy Legacy_spec Legacy_proofs AddrInfo AddrInfo_proofs.
From CAres.Gen Require Import Consts.
Local Open Scope Z_scope.

(* ares_parse_into_addrinfo: exactly one node per IN-class A/AAAA record, appended in answer
   order, with the caller's port and the record's TTL; or nothing is changed (ENODATA) *)
Theorem C13_parse_into_addrinfo_exact : forall rec q qs cno port ai st ai',
  r_questions rec = q :: qs ->
  parse_into_addrinfo rec cno port ai = (st, ai') ->
  (st = ARES_SUCCESS /\ ai_nodes ai' = ai_nodes ai ++ spec_nodes port (r_answers rec) /\
   ai_cnames ai' = ai_cnames ai ++ spec_cnames (r_answers rec)) \/
  (st = ARES_ENODATA /\ ai' = ai /\ spec_nodes port (r_answers rec) = []).
Proof. exact pia_exact. Qed.
Print Assumptions C13_parse_into_addrinfo_exact.

(* ... and spec_nodes invents nothing and drops nothing *)
Theorem C13_nodes_are_the_records : forall port rrs nd, In nd (spec_nodes port rrs) <->
  exists r, In r rrs /\ is_in r = true /\ n_port nd = port /\ n_ttl nd = to_int (rr_ttl r) /\
            ((rr_data r = RD_A (n_addr nd) /\ n_family nd = LEG_AF_INET) \/
             (rr_data r = RD_AAAA (n_addr nd) /\ n_family nd = LEG_AF_INET6)).
Proof. exact spec_nodes_content. Qed.
Print Assumptions C13_nodes_are_the_records.

(* ares_addrinfo2hostent (fresh hostent): the addresses are the nodes of the family, in order *)
Theorem C13_hostent_addresses : forall ai family, family = LEG_AF_INET \/ family = LEG_AF_INET6 ->
  exists st ho, addrinfo2hostent ai family None = Ok (st, ho) /\
                st = fst (a2h_view ai family) /\
                observe_host (match ho with Some h => HSome h | None => HNull end) = Ok (snd (a2h_view ai family)).
Proof. exact a2h_fresh. Qed.
Print Assumptions C13_hostent_addresses.

(* ares_sortaddrinfo: whatever permutation qsort leaves in the element array, the relinked
   list is that permutation of the incoming nodes - none lost, none duplicated, terminated *)
Theorem C13_sort_is_permutation : forall (qsort_order : nat -> list nat),
  (forall n, Permutation (seq 0 n) (qsort_order n)) ->
  forall n, (0 < n)%nat ->
  exists hd heap l, sortaddrinfo qsort_order n = Ok (ARES_SUCCESS, hd, heap) /\
                    walk (S n) hd heap = Ok l /\ Permutation (seq 0 n) l /\ l = qsort_order n.
Proof. exact sortaddrinfo_permutation. Qed.
Print Assumptions C13_sort_is_permutation.

Theorem C13_incoming_list_model : forall n k i, (i + k = n)%nat -> (0 < k)%nat ->
  walk k (Some i) (chain_heap n) = Ok (seq i k).
Proof. exact chain_walk. Qed.
Print Assumptions C13_incoming_list_model.

(* sortlist insertion sort of ares_gethostbyname.c, for every index function *)
Theorem C13_sortlist_sort_permutation : forall (idx : bin -> nat) arr,
  exists arr', sort_addresses idx arr = Ok arr' /\ Permutation arr arr' /\ StronglySorted (le_idx idx) arr'.
Proof. exact sort_addresses_correct. Qed.
Print Assumptions C13_sortlist_sort_permutation.

(* ares_dns_addr_to_ptr *)
Theorem C13_ptr_name_v4 : forall addr, length addr = 4%nat -> Forall is_byte addr ->
  addr_to_ptr LEG_AF_INET addr = Ok (Some (rfc_ptr4 addr)).
Proof. exact addr_to_ptr_rfc4. Qed.
Print Assumptions C13_ptr_name_v4.

Theorem C13_ptr_name_v6 : forall addr, length addr = 16%nat -> Forall is_byte addr ->
  addr_to_ptr LEG_AF_INET6 addr = Ok (Some (rfc_ptr6 addr)).
Proof. exact addr_to_ptr_rfc6. Qed.
Print Assumptions C13_ptr_name_v6.

Theorem C13_ptr_name_injective : forall family a b na nb,
  (family = LEG_AF_INET /\ length a = 4%nat /\ length b = 4%nat) \/
  (family = LEG_AF_INET6 /\ length a = 16%nat /\ length b = 16%nat) ->
  Forall is_byte a -> Forall is_byte b ->
  addr_to_ptr family a = Ok (Some na) -> addr_to_ptr family b = Ok (Some nb) -> na = nb -> a = b.
Proof. exact addr_to_ptr_injective. Qed.
Print Assumptions C13_ptr_name_injective.

(* reverse lookups return the pointed-to names, in order *)
Theorem C13_ptr_names : forall rec q qs addr addrlen family, r_questions rec = q :: qs ->
  observe_hostres (parse_ptr_reply false (Parsed rec) addr addrlen family) = Ok (spec_ptr rec addr addrlen family).
Proof. exact parse_ptr_spec. Qed.
Print Assumptions C13_ptr_names.

(* loopback rule *)
Theorem C13_loopback : forall name port family ai,
  family = LEG_AF_UNSPEC \/ family = LEG_AF_INET \/ family = LEG_AF_INET6 ->
  addrinfo_localhost name port family ai =
  (ARES_SUCCESS, mkAI (Some name) (spec_loopback family port (ai_nodes ai)) (ai_cnames ai)).
Proof. exact localhost_spec. Qed.
Print Assumptions C13_loopback.
