(* C13 - address lookups return exactly the addresses the answers contain.
   FUNCTION-LEVEL part only (no channel): the conversions every lookup result goes through.
   The end-to-end statement (C13_multiset over getaddrinfo/gethostbyname with the two
   sub-queries, hosts file, literals) needs the channel simulator and is NOT claimed here.
   Statements only; proofs in Legacy/AddrInfo_proofs.v and Legacy/Legacy_proofs.v. *)
From Coq Require Import Permutation Sorted.
From CAres.Legacy Require Import Rec Legacy Legacy_spec Legacy_proofs AddrInfo AddrInfo_proofs.
From CAres.Gen Require Import Consts.
Local Open Scope Z_scope.

(* ares_parse_into_addrinfo: exactly one node per IN-class A/AAAA record, appended in answer
   order, with the caller's port and the record's TTL; or nothing is changed (ENODATA) *)
Theorem C13_parse_into_addrinfo_exact : forall rec q qs cno port ai st ai',
  r_questions rec = q :: qs ->
  parse_into_addrinfo rec cno port ai = (st, ai') ->
  (st = ARES_SUCCESS /\ ai_nodes ai' = ai_nodes ai ++ spec_nodes port (r_answers rec) /\
   ai_cnames ai' = ai_cnames ai ++ spec_cnames (r_answers rec)) \/
  (st = ARES_ENODATA /\ ai' = ai /\ spec_nodes port (r_answers rec) = []).
Proof. exact pia_exact. Qed.
Print Assumptions C13_parse_into_addrinfo_exact.

(* ... and spec_nodes invents nothing and drops nothing *)
Theorem C13_nodes_are_the_records : forall port rrs nd, In nd (spec_nodes port rrs) <->
  exists r, In r rrs /\ is_in r = true /\ n_port nd = port /\ n_ttl nd = ttl_to_int (rr_ttl r) /\
            ((rr_data r = RD_A (n_addr nd) /\ n_family nd = LEG_AF_INET) \/
             (rr_data r = RD_AAAA (n_addr nd) /\ n_family nd = LEG_AF_INET6)).
Proof. exact spec_nodes_content. Qed.
Print Assumptions C13_nodes_are_the_records.

(* ares_addrinfo2hostent (fresh hostent): the addresses are the nodes of the family, in order *)
Theorem C13_hostent_addresses : forall ai family, family = LEG_AF_INET \/ family = LEG_AF_INET6 ->
  exists st ho, addrinfo2hostent ai family None = Ok (st, ho) /\
                st = fst (a2h_view ai family) /\
                observe_host (match ho with Some h => HSome h | None => HNull end) = Ok (snd (a2h_view ai family)).
Proof. exact a2h_fresh. Qed.
Print Assumptions C13_hostent_addresses.

(* ares_sortaddrinfo: whatever permutation qsort leaves in the element array, the relinked
   list is that permutation of the incoming nodes - none lost, none duplicated, terminated *)
Theorem C13_sort_is_permutation : forall (qsort_order : nat -> list nat),
  (forall n, Permutation (seq 0 n) (qsort_order n)) ->
  forall n, (0 < n)%nat ->
  exists hd heap l, sortaddrinfo qsort_order n = Ok (ARES_SUCCESS, hd, heap) /\
                    walk (S n) hd heap = Ok l /\ Permutation (seq 0 n) l /\ l = qsort_order n.
Proof. exact sortaddrinfo_permutation. Qed.
Print Assumptions C13_sort_is_permutation.

Theorem C13_incoming_list_model : forall n k i, (i + k = n)%nat -> (0 < k)%nat ->
  walk k (Some i) (chain_heap n) = Ok (seq i k).
Proof. exact chain_walk. Qed.
Print Assumptions C13_incoming_list_model.

(* sortlist insertion sort of ares_gethostbyname.c, for every index function *)
Theorem C13_sortlist_sort_permutation : forall (idx : bin -> nat) arr,
  exists arr', sort_addresses idx arr = Ok arr' /\ Permutation arr arr' /\ StronglySorted (le_idx idx) arr'.
Proof. exact sort_addresses_correct. Qed.
Print Assumptions C13_sortlist_sort_permutation.

(* ares_dns_addr_to_ptr *)
Theorem C13_ptr_name_v4 : forall addr, length addr = 4%nat -> Forall is_byte addr ->
  addr_to_ptr LEG_AF_INET addr = Ok (Some (rfc_ptr4 addr)).
Proof. exact addr_to_ptr_rfc4. Qed.
Print Assumptions C13_ptr_name_v4.

Theorem C13_ptr_name_v6 : forall addr, length addr = 16%nat -> Forall is_byte addr ->
  addr_to_ptr LEG_AF_INET6 addr = Ok (Some (rfc_ptr6 addr)).
Proof. exact addr_to_ptr_rfc6. Qed.
Print Assumptions C13_ptr_name_v6.

Theorem C13_ptr_name_injective : forall family a b na nb,
  (family = LEG_AF_INET /\ length a = 4%nat /\ length b = 4%nat) \/
  (family = LEG_AF_INET6 /\ length a = 16%nat /\ length b = 16%nat) ->
  Forall is_byte a -> Forall is_byte b ->
  addr_to_ptr family a = Ok (Some na) -> addr_to_ptr family b = Ok (Some nb) -> na = nb -> a = b.
Proof. exact addr_to_ptr_injective. Qed.
Print Assumptions C13_ptr_name_injective.

(* reverse lookups return the pointed-to names, in order *)
Theorem C13_ptr_names : forall rec q qs addr addrlen family, r_questions rec = q :: qs ->
  observe_hostres (parse_ptr_reply false (Parsed rec) addr addrlen family) = Ok (spec_ptr rec addr addrlen family).
Proof. exact parse_ptr_spec. Qed.
Print Assumptions C13_ptr_names.

(* loopback rule *)
Theorem C13_loopback : forall name port family ai,
  family = LEG_AF_UNSPEC \/ family = LEG_AF_INET \/ family = LEG_AF_INET6 ->
  addrinfo_localhost name port family ai =
  (ARES_SUCCESS, mkAI (Some name) (spec_loopback family port (ai_nodes ai)) (ai_cnames ai)).
Proof. exact localhost_spec. Qed.
Print Assumptions C13_loopback.

(* ===================== end-to-end half (coq/Legacy/Gai.v) ===================== *)
(* Models ares_getaddrinfo / ares_gethostbyname / ares_gethostbyaddr above the query layer,
   for the code WITH fixes/C13-gai-family-restrict.patch.  Inputs from other layers: the outcome
   of every sub-query, the candidate names (one [round] per name queried), inet_pton, the port,
   the tokenised hosts file. *)
From CAres.Legacy Require Import Gai Gai_proofs.

(* merge of the A and AAAA sub-queries of one name: exactly the address records of the
   accepted answers, family-restricted, in arrival order; success only with an address *)
Theorem C13_merge_exact : forall family port sl arrivals remaining ai nodata d ai' nodata',
  (1 <= remaining)%nat ->
  Forall qres_wf (firstn remaining arrivals) ->
  Forall (fun nd => wanted family nd = true) (ai_nodes ai) ->
  run_round family port sl arrivals remaining ai nodata = Ok (d, ai', nodata') ->
  ai_nodes ai' = ai_nodes ai ++ flat_map (answer_nodes family port) (firstn remaining arrivals) /\
  match d with
  | DEnd st => st = ARES_SUCCESS -> ai_nodes ai' <> []
  | DNext _ => ai_nodes ai' = []
  end.
Proof. exact run_round_spec. Qed.
Print Assumptions C13_merge_exact.

(* ares_getaddrinfo as a whole: success means the nodes of exactly one source - the literal,
   or the first source of the lookup string that has an address: hosts entry / loopback rule,
   or the first candidate name whose accepted answers carry an address of the family *)
Theorem C13_getaddrinfo_exact : forall hf lookups name family port flags p4 p6 rounds ai,
  Forall (round_wf family) rounds ->
  getaddrinfo hf lookups name family (Some port) flags p4 p6 ARES_SUCCESS rounds = Ok (ARES_SUCCESS, Some ai) ->
  match fake_addrinfo name family port flags p4 p6 with
  | FAddr lit => ai = lit
  | FFail _ => False
  | FNone => ai_nodes ai = spec_lookup_nodes hf name family port lookups rounds /\ ai_nodes ai <> []
  end.
Proof. exact getaddrinfo_exact. Qed.
Print Assumptions C13_getaddrinfo_exact.

Theorem C13_getaddrinfo_failure : forall hf lookups name family port flags p4 p6 ns rounds st r,
  getaddrinfo hf lookups name family port flags p4 p6 ns rounds = Ok (st, r) -> st <> ARES_SUCCESS -> r = None.
Proof. exact getaddrinfo_failure. Qed.
Print Assumptions C13_getaddrinfo_failure.

(* nothing invented by a DNS round / by the hosts file *)
Theorem C13_round_nodes_sound : forall family port r nd, In nd (round_nodes family port r) ->
  exists rec, In (QOk rec) (r_arrivals r) /\ In nd (spec_nodes port (r_answers rec)) /\ wanted family nd = true.
Proof. exact round_nodes_sound. Qed.
Print Assumptions C13_round_nodes_sound.

Theorem C13_hosts_nodes_sound : forall lines name family port nd,
  In nd (spec_hosts_nodes (hosts_build lines) name family port) ->
  exists l, In l lines /\ hl_ip l = (n_family nd, n_addr nd) /\ n_port nd = port /\ n_ttl nd = 0 /\ wanted family nd = true.
Proof. exact hosts_nodes_sound. Qed.
Print Assumptions C13_hosts_nodes_sound.

(* hosts entry -> nodes: the loop of ares_hosts_entry_to_addrinfo is the family filter *)
Theorem C13_hosts_entry_nodes : forall ips family port acc,
  entry_nodes ips family port acc =
  acc ++ map (fun ip => mkNode (fst ip) (snd ip) port 0)
             (filter (fun ip => (family =? LEG_AF_UNSPEC) || (family =? fst ip)) ips).
Proof. exact entry_nodes_spec. Qed.
Print Assumptions C13_hosts_entry_nodes.

(* literals (with fixes/C13-gai-literal-family.patch) *)
Theorem C13_literal_node : forall name family port flags p4 p6 ai,
  fake_addrinfo name family port flags p4 p6 = FAddr ai ->
  exists a, (ai_nodes ai = [mkNode LEG_AF_INET a port 0] /\ p4 = Some a /\ family <> LEG_AF_INET6) \/
            (ai_nodes ai = [mkNode LEG_AF_INET6 a port 0] /\ p6 = Some a /\ family <> LEG_AF_INET).
Proof. exact literal_node. Qed.
Print Assumptions C13_literal_node.

Theorem C13_literal_other_family : forall name port flags p4 p6 a,
  forallb is_digit_dot name && Nat.eqb (count_dots name) 3 = true -> p4 = Some a ->
  fake_addrinfo name LEG_AF_INET6 port flags p4 p6 = FFail ARES_ENOTFOUND.
Proof. exact literal_other_family. Qed.
Print Assumptions C13_literal_other_family.

(* reverse lookups: the only name ever queried is the reverse-map name; the names returned are
   the PTR targets of the accepted answer *)
Theorem C13_ghba_queries_rfc_name : forall hf family addr, addr_ok family addr ->
  forall lookups answers queried0 q st hv,
  ghba_lookup hf family addr lookups answers queried0 = Ok (q, st, hv) ->
  exists k, q = queried0 ++ repeat (rfc_name family addr) k.
Proof. exact ghba_queries_rfc_name. Qed.
Print Assumptions C13_ghba_queries_rfc_name.

Theorem C13_ghba_names : forall hf family addr rest rec more q qs, addr_ok family addr -> r_questions rec = q :: qs ->
  exists st hv, gethostbyaddr hf (LB :: rest) family addr (QOk rec :: more) = Ok ([rfc_name family addr], st, hv) /\
    (st, match hv with Some v => VHost v | None => VNull end) =
    spec_ptr rec (Some addr) (Z.of_nat (length addr)) family.
Proof. exact ghba_names. Qed.
Print Assumptions C13_ghba_names.

(* hosts file, completeness of the merge (ares_hosts_file_add): the first line that mentions a
   name contributes its address to what the name resolves to, later lines only add; and no
   line is dropped - every line's address is found by the reverse lookup *)
Theorem C13_hosts_first_mention : forall pre l post x,
  In x (hl_hosts l) ->
  (forall l' y, In l' pre -> In y (hl_hosts l') -> strcaseeq y x = false) ->
  exists e, hosts_search_host (hosts_build (pre ++ l :: post)) x = Some e /\ In (hl_ip l) (he_ips e).
Proof. exact hosts_first_mention. Qed.
Print Assumptions C13_hosts_first_mention.

Theorem C13_hosts_first_mention_node : forall pre l post x family port,
  In x (hl_hosts l) ->
  (forall l' y, In l' pre -> In y (hl_hosts l') -> strcaseeq y x = false) ->
  (family = LEG_AF_UNSPEC \/ family = fst (hl_ip l)) ->
  In (mkNode (fst (hl_ip l)) (snd (hl_ip l)) port 0) (spec_hosts_nodes (hosts_build (pre ++ l :: post)) x family port).
Proof. exact hosts_first_mention_node. Qed.
Print Assumptions C13_hosts_first_mention_node.

Theorem C13_hosts_every_line : forall pre l post,
  exists e, hosts_search_ip (hosts_build (pre ++ l :: post)) (hl_ip l) = Some e /\ In (hl_ip l) (he_ips e).
Proof. exact hosts_every_line. Qed.
Print Assumptions C13_hosts_every_line.

(* which names are IPv4 literals is decided by the model: inet_pton4 is the decimal branch of
   ares_inet_net_pton_ipv4 (what ares_inet_pton(AF_INET, ..) does for a digits-and-dots name) *)
Theorem C13_literal_is_dotted_quad : forall name a, inet_pton4 name = Some a -> length a = 4%nat /\ Forall is_byte a.
Proof. exact inet_pton4_sound. Qed.
Print Assumptions C13_literal_is_dotted_quad.

Theorem C13_dotted_quad_is_literal : forall a b c d, is_byte a -> is_byte b -> is_byte c -> is_byte d ->
  inet_pton4 (dec_digits a ++ [46] ++ dec_digits b ++ [46] ++ dec_digits c ++ [46] ++ dec_digits d) = Some [a; b; c; d].
Proof. exact inet_pton4_dotted_quad. Qed.
Print Assumptions C13_dotted_quad_is_literal.

(* the literal path with the concrete parser: an AF_INET node is the parsed address, four octets *)
Theorem C13_literal_node_concrete : forall name family port flags p6 ai a,
  fake_addrinfo name family port flags (inet_pton4 name) p6 = FAddr ai ->
  ai_nodes ai = [mkNode LEG_AF_INET a port 0] ->
  inet_pton4 name = Some a /\ length a = 4%nat /\ Forall is_byte a /\ family <> LEG_AF_INET6.
Proof. exact literal_node_concrete. Qed.
Print Assumptions C13_literal_node_concrete.
