(* C09 - server selection follows the documented failover policy.  Statements only; the model
   and the specification (fresh_ok, the monitor) are in Core/Servers.v, proofs in
   Core/Servers_proofs.v.  The comparator srv_lt/srv_cmp is the GENERATED translation of
   server_sort_cb (Gen/LeafFns.c_server_sort_cb). *)
From CAres.Base Require Import Outcome.
From CAres.Gen Require Import Consts LeafFns.
From CAres.Core Require Import Servers Servers_proofs.
From Coq Require Import Sorting.Sorted Sorting.Permutation.
Local Open Scope Z_scope.

(* the generated comparator never fails, is three-valued, and orders by (failures, index) *)
Theorem C09_comparator_total : forall a b, exists z, srv_cmp a b = Ok z /\ (z = -1 \/ z = 0 \/ z = 1).
Proof. exact srv_cmp_total. Qed.
Print Assumptions C09_comparator_total.

Theorem C09_comparator_lexicographic : forall a b,
  srv_lt a b = true <-> (sv_fail a < sv_fail b \/ (sv_fail a = sv_fail b /\ sv_idx a < sv_idx b)).
Proof. exact srv_lt_spec. Qed.
Print Assumptions C09_comparator_lexicographic.

(* strict total order on servers with distinct configuration indexes *)
Theorem C09_comparator_strict_total_order :
  (forall a, srv_lt a a = false) /\
  (forall a b c, srv_lt a b = true -> srv_lt b c = true -> srv_lt a c = true) /\
  (forall a b, srv_lt a b = true -> srv_lt b a = false) /\
  (forall a b, sv_idx a <> sv_idx b -> srv_lt a b = true \/ srv_lt b a = true) /\
  (forall a b, srv_cmp a b = Ok 0 <-> (sv_fail a = sv_fail b /\ sv_idx a = sv_idx b)) /\
  (forall a b, srv_cmp a b = Ok (-1) <-> srv_cmp b a = Ok 1).
Proof. exact srv_strict_total_order. Qed.
Print Assumptions C09_comparator_strict_total_order.

(* hence the sorted order of a set of servers is unique (the skip list's coin flips cannot matter) *)
Theorem C09_sorted_order_unique : forall l1 l2,
  StronglySorted ltP l1 -> StronglySorted ltP l2 -> Permutation l1 l2 -> l1 = l2.
Proof. exact sorted_unique. Qed.
Print Assumptions C09_sorted_order_unique.

(* ares_send_query's choice: for every well-formed table and EVERY value of the random byte
   the chosen server has the fewest consecutive failures; without rotation it is the first
   such in configuration order *)
Theorem C09_choice_minimal : forall rotate c l s,
  wf l -> choose_server rotate c l = Some s -> fresh_ok rotate l (sv_addr s).
Proof. exact choose_server_ok. Qed.
Print Assumptions C09_choice_minimal.

(* the executable check used by the monitor is exactly fresh_ok *)
Theorem C09_oracle_is_spec : forall rotate l a, NoDup (map sv_addr l) ->
  (fresh_okb rotate l a = true <-> fresh_ok rotate l a).
Proof. exact fresh_okb_iff. Qed.
Print Assumptions C09_oracle_is_spec.

(* success -> 0, failure/timeout -> +1 (mod 2^64), every other server untouched, indexes kept;
   a list update keeps the failures of known servers; the table stays sorted, with distinct
   addresses and indexes - for every event, every random draw *)
Theorem C09_accounting : forall ch ev ch' obs m,
  wf (ch_servers ch) -> agree m ch -> step ch ev = Ok (ch', obs) ->
  wf (ch_servers ch') /\ accounting ch ev ch' /\ exists m', mon_run m obs = Some m' /\ agree m' ch'.
Proof. exact step_sound. Qed.
Print Assumptions C09_accounting.

(* trace level: from any configuration, for all histories of sends, answers, refusals,
   timeouts (in any order), clock advances and list updates, with all random draws, the
   observable stream is accepted by the monitor: every fresh attempt goes to a server whose
   callback-implied failure count is minimal (first in configuration order without rotation)
   and every probe goes to a server with failures *)
Theorem C09_trace_accepted : forall addrs rotate tries chance delay now evs ch obs,
  run (init_chan addrs rotate tries chance delay now) evs = Ok (ch, obs) ->
  wf (ch_servers ch) /\ exists m, mon_run (mon_init addrs rotate) obs = Some m.
Proof. exact monitor_accepts. Qed.
Print Assumptions C09_trace_accepted.

(* server-list edits (ares_servers_update), also while attempts are in flight: the new table is
   sorted by (consecutive failures, NEW index), its addresses are a permutation of the new
   configuration (duplicates skipped), every server's index is the position of its address,
   known servers keep their failures and new ones start at 0.  Together with
   C09_choice_minimal (any well-formed table) and C09_trace_accepted (histories containing
   edits, with re-queued attempts) "the first such in configuration order" refers to the list
   as last set.  Proved for the code with fixes/C09-stale-servers-unlink-first.patch. *)
Theorem C09_edit_result : forall old addrs,
  wf old ->
  wf (servers_update old addrs) /\
  Permutation (map sv_addr (servers_update old addrs)) (dedup [] addrs) /\
  forall s, In s (servers_update old addrs) ->
    nth_error (dedup [] addrs) (Z.to_nat (sv_idx s)) = Some (sv_addr s) /\ 0 <= sv_idx s /\
    sv_fail s = fail_or_0 old (sv_addr s).
Proof. exact edit_result. Qed.
Print Assumptions C09_edit_result.

(* list_changed (query cache flush) stays false only if the set of addresses is unchanged *)
Theorem C09_edit_changed : forall old addrs,
  update_changed old addrs = false -> forall a, In a addrs <-> In a (map sv_addr old).
Proof. exact update_changed_false. Qed.
Print Assumptions C09_edit_changed.

(* The pinned ares_servers_remove_stale re-queues a query to a server that is itself being
   removed (reachable witness; the monitor rejects the stream; the patched code does not) *)
Theorem C09_edit_pinned_refuted :
  exists ch obs0, run (init_chan [1; 2; 3] false 3 1 0 (100000, 0)) history_stale = Ok (ch, obs0) /\
    (exists ch', set_servers_pinned ch [2] [] = Ok (ch', [OServers [2]; OTx 3 3 false; OTx 3 2 false])) /\
    (exists ch', step ch (EvSetServers [2] []) = Ok (ch', [OServers [2]; OTx 3 2 false])) /\
    mon_run (mon_init [1; 2; 3] false) (obs0 ++ [OServers [2]; OTx 3 3 false]) = None.
Proof. exact edit_pinned_refuted. Qed.
Print Assumptions C09_edit_pinned_refuted.

(* the probe copy does not alter the user's query *)
Theorem C09_probe_isolated : forall ch label try err c ch1 obs1,
  wf (ch_servers ch) -> send_fresh ch label try err c = Ok (ch1, obs1) ->
  exists ch0, send_fresh (with_chance ch 0) label try err c = Ok (ch0, filter user_obs obs1) /\
    map key4 (ch_servers ch0) = map key4 (ch_servers ch1) /\
    filter user_attempt (ch_inflight ch0) = filter user_attempt (ch_inflight ch1).
Proof. exact probe_isolated. Qed.
Print Assumptions C09_probe_isolated.

(* a failed probe is not retried and never reaches a user callback *)
Theorem C09_probe_never_retried : forall ch a status c ch' obs,
  at_probe a = true -> fail_attempt ch a status c = Ok (ch', obs) ->
  (obs = [OFail (at_server a)] \/ obs = []) /\
  ch_inflight ch' = remove_attempt (at_label a) (ch_inflight ch).
Proof. exact probe_failure_ends. Qed.
Print Assumptions C09_probe_never_retried.

(* when a probe is sent *)
Theorem C09_probe_conditions : forall ch label try err c ch' obs pl pa,
  wf (ch_servers ch) -> send_fresh ch label try err c = Ok (ch', obs) -> In (OTx pl pa true) obs ->
  try = 0 /\ ch_chance ch <> 0 /\ c_probe c mod ch_chance ch = 0 /\
  exists ps, In ps (ch_servers ch) /\ sv_addr ps = pa /\ 0 < sv_fail ps /\ sv_probe ps = false /\
    (exists t, c_ares_timedout (fst (ch_now ch)) (fst (sv_retry ps)) (snd (ch_now ch)) (snd (sv_retry ps)) = Ok t /\ t <> 0) /\
    exists su, choose_server (ch_rotate ch) (c_rot c) (ch_servers ch) = Some su /\ sv_fail su = 0 /\ sv_addr su <> pa.
Proof. exact probe_sent_conditions. Qed.
Print Assumptions C09_probe_conditions.

(* ares_send_query's choice is total: with at least one configured server some server is
   chosen, for every value of the random byte (so an attempt that is due is made) *)
Theorem C09_pick_total : forall rotate c l, l <> [] -> exists s, choose_server rotate c l = Some s.
Proof. exact choose_server_total. Qed.
Print Assumptions C09_pick_total.

(* trace level: an attempt that is due is actually made.  For all histories the second monitor
   accepts the stream: a user query ends with a failure status (other than cancellation) only
   when the number of transmissions made for it has reached the budget configured servers x
   tries - in particular never with ARES_ENOSERVER, and never without a transmission, while
   servers are configured.  [inv] also carries the facts used for liveness. *)
Theorem C09_attempts_sent : forall addrs rotate tries chance delay now evs ch obs,
  run (init_chan addrs rotate tries chance delay now) evs = Ok (ch, obs) ->
  exists bm, bmon_run (bmon_init addrs tries) obs = Some bm /\ inv bm ch.
Proof. exact budget_accepts. Qed.
Print Assumptions C09_attempts_sent.

(* "failed servers are re-tried by probe copies after the retry delay" (with
   fixes/C09-probe-pending-clear.patch): in every reachable state, when a user's first attempt
   goes to a server without failures, the draw says "probe" and some failed server is past its
   retry time with no probe in flight to it, a probe copy is transmitted (to another server) *)
Theorem C09_probe_liveness : forall addrs rotate tries chance delay now evs ch obs0 c ch' obs su,
  run (init_chan addrs rotate tries chance delay now) evs = Ok (ch, obs0) ->
  choose_server (ch_rotate ch) (c_rot c) (ch_servers ch) = Some su -> sv_fail su = 0 ->
  ch_chance ch <> 0 -> c_probe c mod ch_chance ch = 0 ->
  probe_due ch (ch_servers ch) = Ok true ->
  step ch (EvSend c) = Ok (ch', obs) ->
  exists pl pa, In (OTx pl pa true) obs /\ pa <> sv_addr su.
Proof. exact probe_liveness_reachable. Qed.
Print Assumptions C09_probe_liveness.

(* "each failure demotes it": a connection that fails or is closed by the server - orderly close
   (recv() == 0) included - is a failure of that server.  For all histories the third monitor
   accepts the stream: whenever the transport loses a connection with queries outstanding, the
   very next observation is the failure callback of that server; the re-queued attempts that
   follow are judged against the demoted table by C09_trace_accepted, C09_accounting gives the
   +1. *)
Theorem C09_conn_loss_demotes : forall evs ch ch' obs,
  run ch evs = Ok (ch', obs) -> dmon_run None obs = Some None.
Proof. exact demotion_accepts. Qed.
Print Assumptions C09_conn_loss_demotes.

Theorem C09_conn_loss_step : forall ch a cs ch' obs,
  step ch (EvConnLost a cs) = Ok (ch', obs) ->
  exists out rest, obs = OConnLost a out :: OFail a :: rest /\ quiet rest /\
    out = negb (is_nil (filter (fun x => at_server x =? a) (ch_inflight ch))).
Proof. exact connlost_shape. Qed.
Print Assumptions C09_conn_loss_step.

(* "a fresh attempt goes to a server with the fewest consecutive failures" also holds for the
   TCP attempt that follows a truncated UDP answer: it is a fresh selection on the table as it
   is when the TC answer arrives - not pinned to the server that sent the TC answer, which may
   have been demoted by another query in the meantime.  (Histories with EvTruncated are also
   covered by C09_trace_accepted / C09_attempts_sent / C09_conn_loss_demotes.) *)
Theorem C09_tc_retry_fresh : forall ch label c ch' obs,
  wf (ch_servers ch) -> step ch (EvTruncated label c) = Ok (ch', obs) ->
  forall l a, In (OTx l a false) obs -> l = label /\ fresh_ok (ch_rotate ch) (ch_servers ch) a.
Proof. exact truncated_fresh. Qed.
Print Assumptions C09_tc_retry_fresh.

(* "a success restores it to full priority" under callback re-entrancy: the success of the
   answering server is recorded (and reported) BEFORE the query completes, so a query that the
   completion callback starts at once - as ares_search / ares_getaddrinfo do for their next
   candidate - is selected against a table in which that server has no failures. *)
Theorem C09_success_before_completion : forall ch label a s ch' obs,
  wf (ch_servers ch) -> find_attempt label (ch_inflight ch) = Some a -> at_probe a = false ->
  find_addr (at_server a) (ch_servers ch) = Some s ->
  step ch (EvAnswer label) = Ok (ch', obs) ->
  obs = [OGood (at_server a); ODone label ARES_SUCCESS] /\
  wf (ch_servers ch') /\
  (exists s', find_addr (at_server a) (ch_servers ch') = Some s' /\ sv_fail s' = 0 /\ sv_idx s' = sv_idx s) /\
  forall c ch'' obs'', step ch' (EvSend c) = Ok (ch'', obs'') ->
    forall l b, In (OTx l b false) obs'' -> fresh_ok (ch_rotate ch') (ch_servers ch') b.
Proof. exact answer_then_send. Qed.
Print Assumptions C09_success_before_completion.

(* The bookkeeping behind C09_probe_liveness: in every reachable state a server is marked "probe
   pending" only while a probe copy to it is outstanding.  A probe copy that fails at once while
   being sent (socket/connect error: EvSend followed by EvRefuse of the probe copy - the engine
   "servers" replays it that way, event p) therefore leaves the mark cleared, and by
   C09_probe_liveness the server is probed again once its retry time has passed. *)
Theorem C09_probe_flag_has_probe : forall addrs rotate tries chance delay now evs ch obs b s,
  run (init_chan addrs rotate tries chance delay now) evs = Ok (ch, obs) ->
  find_addr b (ch_servers ch) = Some s -> sv_probe s = true ->
  exists x, In x (ch_inflight ch) /\ at_probe x = true /\ at_server x = b.
Proof. exact probe_flag_has_probe. Qed.
Print Assumptions C09_probe_flag_has_probe.
