(* C14 - any single allocation failure is survived cleanly.
   Statements only; proofs are in Core/AllocFault.v, Alloc/*_proofs.v, Dsa/Array_alloc.v.

   SCOPE.  These theorems cover the MODELLED operations (container growth and the
   request-submission path) for EVERY allocation oracle, hence for every position of a single
   failing allocation.  Every other allocation site of the library is covered by the
   enumeration engine only (props/C14.manifest.json says so).  The submission path is
   modelled at the granularity of allocation groups (Alloc/SendAlloc.v); that a group is
   all-or-nothing is proved here for the container groups and assumed for the record
   parser/writer groups. *)
From CAres.Core Require Import AllocFault.
From CAres.Dsa Require Import Array Array_alloc.
From CAres.Alloc Require Import ListAlloc ListAlloc_proofs BufAlloc BufAlloc_proofs
     HtableAlloc HtableAlloc_proofs SendAlloc SendAlloc_proofs Oracle.
From CAres.Alloc Require C19Containers DupAlloc DupAlloc_proofs SendWork SendWork_proofs.
From CAres.Dsa Require LList SList Htable Htable_proofs Buf Buf_proofs.
From CAres.Wire Require Record Write Parse.
From Coq Require Import Permutation.
From CAres.Gen Require Import Consts.

(* ---- containers: a refused allocation leaves the container and the ledger unchanged ---- *)

Theorem C14_container_atomic_llist : forall f l pos v h,
  exists r l' h', llist_insert_at f l pos v h = Ok ((r, l'), h') /\ h_next h' = S (h_next h) /\
    match r with
    | None => f (h_next h) = false /\ l' = l /\ h_live h' = h_live h
    | Some n => f (h_next h) = true /\ l' = ll_attach l pos n /\ ln_val n = v /\
                ln_blk n = h_next h /\ h_live h' = ln_blk n :: h_live h
    end.
Proof. exact llist_insert_atomic. Qed.
Print Assumptions C14_container_atomic_llist.

(* ares_slist_insert: node, next[], prev[] and possibly the realloc of head[] *)
Theorem C14_container_atomic_slist : forall f l v level h,
  heap_wf h -> In (sl_head l) (h_live h) ->
  exists r l' h', slist_insert f l v level h = Ok ((r, l'), h') /\
    match r with
    | None => (exists j, slist_first_failure f l level (h_next h) = Some j /\ h_next h' = h_next h + S j)
              /\ l' = l /\ h_live h' = h_live h
    | Some n => slist_first_failure f l level (h_next h) = None /\
                sn_val n = v /\ sn_levels n = level /\
                sl_abs l' = z_insert v (sl_abs l) /\ sl_blk l' = sl_blk l /\
                sn_blk n = h_next h /\ sn_next n = 1 + h_next h /\ sn_prev n = 2 + h_next h /\
                if Nat.ltb (sl_levels l) level
                then sl_levels l' = level /\ sl_head l' = 3 + h_next h /\ h_next h' = 4 + h_next h /\
                     h_live h' = sl_head l' :: remove_one (sl_head l) (sn_prev n :: sn_next n :: sn_blk n :: h_live h)
                else sl_levels l' = sl_levels l /\ sl_head l' = sl_head l /\ h_next h' = 3 + h_next h /\
                     h_live h' = sn_prev n :: sn_next n :: sn_blk n :: h_live h
    end.
Proof. exact slist_insert_atomic. Qed.
Print Assumptions C14_container_atomic_slist.

(* ares_buf_append / ares_buf_ensure_space *)
Theorem C14_container_atomic_buf : forall f b bytes h,
  buf_wf b -> (forall ab, b_alloc b = Some ab -> In ab (h_live h)) ->
  exists st b1 h', buf_append f b bytes h = Ok ((st, b1), h') /\ buf_wf b1 /\
    ((st = ARES_SUCCESS /\ buf_unread b1 = buf_unread b ++ bytes /\
      buf_tagged b1 = option_map (fun l => l ++ bytes) (buf_tagged b) /\
      ((b_alloc b1 = b_alloc b /\ h' = h) \/
       (f (h_next h) = true /\ b_alloc b1 = Some (h_next h) /\
        h_live h' = h_next h :: match b_alloc b with Some ab => remove_one ab (h_live h) | None => h_live h end)))
     \/
     (st = ARES_ENOMEM /\ bytes <> [] /\ f (h_next h) = false /\
      buf_unread b1 = buf_unread b /\ buf_tagged b1 = buf_tagged b /\
      b_alloc b1 = b_alloc b /\ h_live h' = h_live h)).
Proof. exact buf_append_atomic. Qed.
Print Assumptions C14_container_atomic_buf.

(* ares_array_insert_at: ARES_ENOMEM comes from ares_array_set_size, the first step, only *)
Theorem C14_container_atomic_array : forall a idx v,
  (arr_insertdata_at false a idx v = arr_insertdata_at true a idx v \/
   (arr_insertdata_at false a idx v = Err ARES_ENOMEM /\
    arr_set_size false a (a_cnt a + 1) = Err ARES_ENOMEM /\
    exists a', arr_set_size true a (a_cnt a + 1) = Ok a' /\ alloc_cnt a < alloc_cnt a'))
  /\ arr_insertdata_at true a idx v <> Err ARES_ENOMEM.
Proof. exact arr_insert_alloc_c14. Qed.
Print Assumptions C14_container_atomic_array.

(* ares_htable_expand: fails only because one of its pre-allocations was refused, and then
   nothing has moved; conversely any refused pre-allocation makes it fail that way *)
Theorem C14_container_atomic_htable_expand : forall hash f t h,
  (forall r h', ht_expand hash f t h = Ok (r, h') -> fst r = false ->
     snd r = t /\ h_live h' = h_live h /\ exists j, j < ht_prealloc_count t /\ f (h_next h + j) = false) /\
  (forall j, Z.eqb (Z.of_nat (ht_size t)) ARES__HTABLE_MAX_BUCKETS = false ->
     j < ht_prealloc_count t -> f (h_next h + j) = false ->
     exists h', ht_expand hash f t h = Ok ((false, t), h') /\ h_live h' = h_live h).
Proof. exact ht_expand_c14. Qed.
Print Assumptions C14_container_atomic_htable_expand.

(* ares_htable_insert: a failed insert leaves the association list alone; the table is as
   before, or as a COMPLETED expansion left it, plus at most one empty chain header that the
   table owns.  (That a completed expansion preserves the association list is the C19
   hash-table refinement, not repeated here.) *)
Theorem C14_container_atomic_htable_insert : forall hash f t k v h r h',
  ht_insert hash f t k v h = Ok (r, h') -> fst r = false ->
  exists ok t1 h1, ht_maybe_expand hash f t h = Ok ((ok, t1), h1) /\
    ((ok = false /\ snd r = t /\ h_live h' = h_live h) \/
     (ok = true /\ ht_abs (snd r) = ht_abs t1 /\
      ((snd r = t1 /\ h_live h' = h_live h1) \/
       (exists lb, h_live h' = lb :: h_live h1 /\ In lb (ht_blocks (snd r)) /\
                   ht_blocks (snd r) <> ht_blocks t1)))).
Proof. exact ht_insert_atomic. Qed.
Print Assumptions C14_container_atomic_htable_insert.

(* ---- request submission: ares_send_nolock -> ares_send_query -> ares_open_connection ---- *)

(* for EVERY oracle and every answer of the environment: either exactly one callback, the
   indexes of the channel as before and a balanced ledger, or no callback and the request in
   all four indexes with every new block owned; never a double free (the result is Ok) *)
Theorem C14_send_exactly_once : forall f E ch qid h,
  heap_ok h -> fresh_qid ch qid -> env_modelled E ch ->
  exists r h', send_nolock f E ch qid h = Ok (r, h') /\ submit_post f E ch qid h r h'.
Proof. exact send_exactly_once. Qed.
Print Assumptions C14_send_exactly_once.

(* when only the allocator can fail, whichever allocation group the (single) failure hits:
   the request proceeds, or its callback is invoked exactly once with ARES_ENOMEM, the call
   returns ARES_ENOMEM, nothing of the request remains and the ledger balances *)
Theorem C14_send_exactly_once_under_single_failure : forall f E ch qid h,
  single_failure f -> env_all_ok E ->
  heap_ok h -> fresh_qid ch qid -> env_modelled E ch ->
  exists r h', send_nolock f E ch qid h = Ok (r, h') /\ heap_ok h' /\
    ((exists q', r_query r = Some q' /\ r_cbs r = [] /\ r_status r = ARES_SUCCESS /\ q_qid q' = qid /\
                 ch_all (r_chan r) = ch_all ch ++ [qid] /\ ch_byqid (r_chan r) = qid :: ch_byqid ch /\
                 ch_bytmo (r_chan r) = qid :: ch_bytmo ch /\
                 length (h_live h') + 6 * length (ch_conns ch)
                   = length (h_live h) + length (qblocks q') + 6 * length (ch_conns (r_chan r)))
     \/
     (r_query r = None /\ r_cbs r = [ARES_ENOMEM] /\ r_status r = ARES_ENOMEM /\ (exists n, f n = false) /\
      ch_all (r_chan r) = ch_all ch /\ ch_byqid (r_chan r) = ch_byqid ch /\ ch_bytmo (r_chan r) = ch_bytmo ch /\
      (forall c, In c (ch_conns (r_chan r)) -> In c (ch_conns ch) \/ cn_queries c = []) /\
      length (h_live h') + 6 * length (ch_conns ch) = length (h_live h) + 6 * length (ch_conns (r_chan r)))).
Proof. exact send_single_failure. Qed.
Print Assumptions C14_send_exactly_once_under_single_failure.

(* ares_open_connection on its own: on failure nothing is kept and nothing is registered *)
Theorem C14_open_connection_unwinds : forall f E ch tcp att h,
  heap_ok h ->
  exists st oci ch1 h1, open_connection f E ch tcp att h = Ok ((st, oci, ch1), h1) /\ heap_ok h1 /\
    h_next h <= h_next h1 /\
    ch_all ch1 = ch_all ch /\ ch_byqid ch1 = ch_byqid ch /\ ch_bytmo ch1 = ch_bytmo ch /\
    ((oci = None /\ st <> ARES_SUCCESS /\ ((st = ARES_ENOMEM /\ exists n, f n = false) \/ st = e_sock E att) /\
      ch_conns ch1 = ch_conns ch /\ h_live h1 = h_live h) \/
     (exists c, oci = Some (if tcp then length (ch_conns ch) else 0) /\ st = ARES_SUCCESS /\
                cn_queries c = [] /\
                ch_conns ch1 = (if tcp then ch_conns ch ++ [c] else c :: ch_conns ch) /\
                exists new, length new = 6 /\ h_live h1 = new ++ h_live h)).
Proof. exact open_connection_spec. Qed.
Print Assumptions C14_open_connection_unwinds.

(* the executable oracle that judges the implementation accepts the model's failed submission *)
Theorem C14_send_failure_accepted_by_oracle : forall f E ch qid h base_cb base_ret,
  single_failure f -> env_all_ok E -> heap_ok h -> fresh_qid ch qid -> env_modelled E ch ->
  exists r h', send_nolock f E ch qid h = Ok (r, h') /\
    (r_query r = None ->
     judge_tok (mkTok qid 1 (r_cbs r) (Some (r_status r)) base_cb base_ret true false false true) = []).
Proof. exact send_failure_judged. Qed.
Print Assumptions C14_send_failure_accepted_by_oracle.

(* ---- the same container statements on the C19 models (coq/Dsa/*.v: refinement-proved and
        tied to the code by the dsa engine), allocator answers drawn from the oracle at the
        current request counter: every position of the failing allocation ---- *)

Theorem C14_c19_llist_insert_refused : forall (f : oracle) n h l v,
  f n = false ->
  LList.ll_insert_first (f n) h l v = Ok (h, None) /\ LList.ll_insert_last (f n) h l v = Ok (h, None).
Proof. exact C19Containers.c19_llist_insert_refused. Qed.
Print Assumptions C14_c19_llist_insert_refused.

Theorem C14_c19_slist_insert_refused : forall D (cmp : D -> D -> Z) heads (f : oracle) n (s : SList.slist D) d,
  (exists j, j < 3 /\ f (n + j) = false) \/
  (f (n + 3) = false /\
   SList.sl_levels s < SList.sl_calc_level (SList.sl_max_level (SList.sl_cnt s) (SList.sl_levels s)) 1 heads) ->
  SList.sl_insert cmp heads (f n) (f (n + 1)) (f (n + 2)) (f (n + 3)) s d = Ok (s, None).
Proof. exact (@C19Containers.c19_slist_insert_refused). Qed.
Print Assumptions C14_c19_slist_insert_refused.

Theorem C14_c19_htable_expand_refused : forall K V (hash : K -> Z -> Z) (f : oracle) n k (h : @Htable.ht K V),
  Htable.ht_expand_requests h <= k ->
  (exists j, j < Htable.ht_expand_requests h /\ f (n + j) = false) ->
  exists o', Htable.ht_expand hash (C19Containers.answers f n k) h = Ok (h, false, o').
Proof. exact (@C19Containers.c19_htable_expand_refused). Qed.
Print Assumptions C14_c19_htable_expand_refused.

Theorem C14_c19_htable_insert_failed : forall K V (keq : K -> K -> bool) (hash : K -> Z -> Z),
  (forall a b, keq a b = keq b a) ->
  (forall a b c, keq a b = true -> keq b c = true -> keq a c = true) ->
  (forall a b s, keq a b = true -> hash a s = hash b s) ->
  forall (f : oracle) n k (h h' : @Htable.ht K V) e,
  Htable_proofs.ht_inv keq hash h ->
  Htable.ht_insert keq hash (C19Containers.answers f n k) h e = Ok (h', Htable.HtFailed) ->
  Htable_proofs.ht_inv keq hash h' /\
  Permutation (Htable_proofs.ht_entries h') (Htable_proofs.ht_entries h) /\
  (exists j, j < k /\ f (n + j) = false) /\
  (forall key, Htable.ht_get keq hash h' key = Htable.ht_get keq hash h key) /\
  Htable.ht_num_keys h' = Htable.ht_num_keys h.
Proof. exact (@C19Containers.c19_htable_insert_failed). Qed.
Print Assumptions C14_c19_htable_insert_failed.

Theorem C14_c19_buf_append_refused : forall junk (f : oracle) n b bytes st b',
  Buf_proofs.buf_inv b -> (Buf.buf_zlen bytes < Buf.BUF_ALLOC_LIMIT)%Z ->
  Buf.buf_append junk (f n) b bytes = Ok (st, b') -> st = ARES_ENOMEM ->
  Buf_proofs.buf_inv b' /\ Buf.buf_remaining b' = Buf.buf_remaining b /\
  Buf.bufs_tagged (Buf.buf_abs b') = Buf.bufs_tagged (Buf.buf_abs b).
Proof. exact C19Containers.c19_buf_append_refused. Qed.
Print Assumptions C14_c19_buf_append_refused.

(* ---- the group G_dup opened: ares_dns_record_duplicate_ex = ares_dns_write, ares_dns_parse,
        ares_free(data); values from the C03/C04 models, kw / kp requests by writer / parser
        (each assumed all-or-nothing); the composition keeps nothing on any failure ---- *)
Theorem C14_record_duplicate_atomic : forall (f : oracle) kw kp src h,
  is_ub (Write.dns_write src) = false ->
  (forall bytes, Write.dns_write src = Ok bytes -> is_ub (Parse.dns_parse bytes 0%Z) = false) ->
  (forall s, Write.dns_write src = Err s -> s <> ARES_SUCCESS) ->
  (forall bytes s, Write.dns_write src = Ok bytes -> Parse.dns_parse bytes 0%Z = Err s -> s <> ARES_SUCCESS) ->
  exists st r hh, DupAlloc.record_duplicate f kw kp src h = Ok ((st, r), hh) /\
    match r with
    | None => st <> ARES_SUCCESS /\ h_live hh = h_live h
    | Some (rec, blks) =>
      st = ARES_SUCCESS /\ length blks = kp /\ h_live hh = blks ++ h_live h /\
      exists bytes, Write.dns_write src = Ok bytes /\ Parse.dns_parse bytes 0%Z = Ok rec
    end /\
    (r = None ->
     (st = ARES_ENOMEM /\ exists n, f n = false) \/
     Write.dns_write src = Err st \/
     (exists bytes, Write.dns_write src = Ok bytes /\ Parse.dns_parse bytes 0%Z = Err st)).
Proof. exact DupAlloc_proofs.record_duplicate_spec. Qed.
Print Assumptions C14_record_duplicate_atomic.

(* ---- the submission path with EVERY live request in the state (Alloc/SendWork.v): the branch
        "write refused -> handle_conn_error -> ares_close_connection -> every other request of
        the connection requeued -> the request itself requeued" is inside the model; the mutual
        recursion is a work stack with fuel that is shown to suffice.  For every oracle and
        environment: the run completes (no double free), every request is called back at most
        once, a request that was called back is gone, all others are still there, and the
        ledger balances with the same base before and after ---- *)
Theorem C14_send_all_requests_exactly_once : forall f E ch q h base,
  NoDup (SendWork_proofs.qids (SendWork.w_queries ch)) ->
  SendWork_proofs.OS base (SendWork_proofs.all_qblks (SendWork.w_queries ch) ++ SendWork_proofs.all_cblks (SendWork.w_conns ch)) h ->
  (forall q', In q' (SendWork.w_queries ch) -> SendWork_proofs.q_ok (SendWork.w_conns ch) q') ->
  In q (SendWork.w_queries ch) -> SendWork_proofs.detached q ->
  exists ch' log h', SendWork.w_submit f E ch q h = Ok ((ch', log), h') /\
    NoDup (map fst log) /\
    (forall qid, In qid (map fst log) -> ~ In qid (SendWork_proofs.qids (SendWork.w_queries ch'))) /\
    Permutation (SendWork_proofs.qids (SendWork.w_queries ch') ++ map fst log) (SendWork_proofs.qids (SendWork.w_queries ch)) /\
    SendWork_proofs.OS base (SendWork_proofs.all_qblks (SendWork.w_queries ch') ++ SendWork_proofs.all_cblks (SendWork.w_conns ch')) h' /\
    (forall q', In q' (SendWork.w_queries ch') -> SendWork_proofs.q_ok (SendWork.w_conns ch') q').
Proof. exact SendWork_proofs.send_all_requests. Qed.
Print Assumptions C14_send_all_requests_exactly_once.
