(* C14 - any single allocation failure is survived cleanly.
   Statements only; proofs are in Core/AllocFault.v, Alloc/*_proofs.v, Dsa/Array_alloc.v.

   SCOPE.  These theorems cover the MODELLED operations (container growth and the
   request-submission path) for EVERY allocation oracle, hence for every position of a single
   failing allocation.  Every other allocation site of the library is covered by the
   enumeration engine only (props/C14.manifest.json says so).  The submission path is
   modelled at the granularity of allocation groups (Alloc/SendAlloc.v); that a group is
   all-or-nothing is proved here for the container groups and assumed for the record
   parser/writer groups. *)
From CAres.Core Require Import AllocFault.
From CAres.Dsa Require Import Array Array_alloc.
From CAres.Alloc Require Import ListAlloc ListAlloc_proofs BufAlloc BufAlloc_proofs
     HtableAlloc HtableAlloc_proofs SendAlloc SendAlloc_proofs Oracle.
From CAres.Gen Require Import Consts.

(* ---- containers: a refused allocation leaves the container and the ledger unchanged ---- *)

Theorem C14_container_atomic_llist : forall f l pos v h,
  exists r l' h', llist_insert_at f l pos v h = Ok ((r, l'), h') /\ h_next h' = S (h_next h) /\
    match r with
    | None => f (h_next h) = false /\ l' = l /\ h_live h' = h_live h
    | Some n => f (h_next h) = true /\ l' = ll_attach l pos n /\ ln_val n = v /\
                ln_blk n = h_next h /\ h_live h' = ln_blk n :: h_live h
    end.
Proof. exact llist_insert_atomic. Qed.
Print Assumptions C14_container_atomic_llist.

(* ares_slist_insert: node, next[], prev[] and possibly the realloc of head[] *)
Theorem C14_container_atomic_slist : forall f l v level h,
  heap_wf h -> In (sl_head l) (h_live h) ->
  exists r l' h', slist_insert f l v level h = Ok ((r, l'), h') /\
    match r with
    | None => (exists j, slist_first_failure f l level (h_next h) = Some j /\ h_next h' = h_next h + S j)
              /\ l' = l /\ h_live h' = h_live h
    | Some n => slist_first_failure f l level (h_next h) = None /\
                sn_val n = v /\ sn_levels n = level /\
                sl_abs l' = z_insert v (sl_abs l) /\ sl_blk l' = sl_blk l /\
                sn_blk n = h_next h /\ sn_next n = 1 + h_next h /\ sn_prev n = 2 + h_next h /\
                if Nat.ltb (sl_levels l) level
                then sl_levels l' = level /\ sl_head l' = 3 + h_next h /\ h_next h' = 4 + h_next h /\
                     h_live h' = sl_head l' :: remove_one (sl_head l) (sn_prev n :: sn_next n :: sn_blk n :: h_live h)
                else sl_levels l' = sl_levels l /\ sl_head l' = sl_head l /\ h_next h' = 3 + h_next h /\
                     h_live h' = sn_prev n :: sn_next n :: sn_blk n :: h_live h
    end.
Proof. exact slist_insert_atomic. Qed.
Print Assumptions C14_container_atomic_slist.

(* ares_buf_append / ares_buf_ensure_space *)
Theorem C14_container_atomic_buf : forall f b bytes h,
  buf_wf b -> (forall ab, b_alloc b = Some ab -> In ab (h_live h)) ->
  exists st b1 h', buf_append f b bytes h = Ok ((st, b1), h') /\ buf_wf b1 /\
    ((st = ARES_SUCCESS /\ buf_unread b1 = buf_unread b ++ bytes /\
      buf_tagged b1 = option_map (fun l => l ++ bytes) (buf_tagged b) /\
      ((b_alloc b1 = b_alloc b /\ h' = h) \/
       (f (h_next h) = true /\ b_alloc b1 = Some (h_next h) /\
        h_live h' = h_next h :: match b_alloc b with Some ab => remove_one ab (h_live h) | None => h_live h end)))
     \/
     (st = ARES_ENOMEM /\ bytes <> [] /\ f (h_next h) = false /\
      buf_unread b1 = buf_unread b /\ buf_tagged b1 = buf_tagged b /\
      b_alloc b1 = b_alloc b /\ h_live h' = h_live h)).
Proof. exact buf_append_atomic. Qed.
Print Assumptions C14_container_atomic_buf.

(* ares_array_insert_at: ARES_ENOMEM comes from ares_array_set_size, the first step, only *)
Theorem C14_container_atomic_array : forall a idx v,
  (arr_insertdata_at false a idx v = arr_insertdata_at true a idx v \/
   (arr_insertdata_at false a idx v = Err ARES_ENOMEM /\
    arr_set_size false a (a_cnt a + 1) = Err ARES_ENOMEM /\
    exists a', arr_set_size true a (a_cnt a + 1) = Ok a' /\ alloc_cnt a < alloc_cnt a'))
  /\ arr_insertdata_at true a idx v <> Err ARES_ENOMEM.
Proof. exact arr_insert_alloc_c14. Qed.
Print Assumptions C14_container_atomic_array.

(* ares_htable_expand: fails only because one of its pre-allocations was refused, and then
   nothing has moved; conversely any refused pre-allocation makes it fail that way *)
Theorem C14_container_atomic_htable_expand : forall hash f t h,
  (forall r h', ht_expand hash f t h = Ok (r, h') -> fst r = false ->
     snd r = t /\ h_live h' = h_live h /\ exists j, j < ht_prealloc_count t /\ f (h_next h + j) = false) /\
  (forall j, Z.eqb (Z.of_nat (ht_size t)) ARES__HTABLE_MAX_BUCKETS = false ->
     j < ht_prealloc_count t -> f (h_next h + j) = false ->
     exists h', ht_expand hash f t h = Ok ((false, t), h') /\ h_live h' = h_live h).
Proof. exact ht_expand_c14. Qed.
Print Assumptions C14_container_atomic_htable_expand.

(* ares_htable_insert: a failed insert leaves the association list alone; the table is as
   before, or as a COMPLETED expansion left it, plus at most one empty chain header that the
   table owns.  (That a completed expansion preserves the association list is the C19
   hash-table refinement, not repeated here.) *)
Theorem C14_container_atomic_htable_insert : forall hash f t k v h r h',
  ht_insert hash f t k v h = Ok (r, h') -> fst r = false ->
  exists ok t1 h1, ht_maybe_expand hash f t h = Ok ((ok, t1), h1) /\
    ((ok = false /\ snd r = t /\ h_live h' = h_live h) \/
     (ok = true /\ ht_abs (snd r) = ht_abs t1 /\
      ((snd r = t1 /\ h_live h' = h_live h1) \/
       (exists lb, h_live h' = lb :: h_live h1 /\ In lb (ht_blocks (snd r)) /\
                   ht_blocks (snd r) <> ht_blocks t1)))).
Proof. exact ht_insert_atomic. Qed.
Print Assumptions C14_container_atomic_htable_insert.

(* ---- request submission: ares_send_nolock -> ares_send_query -> ares_open_connection ---- *)

(* for EVERY oracle and every answer of the environment: either exactly one callback, the
   indexes of the channel as before and a balanced ledger, or no callback and the request in
   all four indexes with every new block owned; never a double free (the result is Ok) *)
Theorem C14_send_exactly_once : forall f E ch qid h,
  heap_ok h -> fresh_qid ch qid -> env_modelled E ch ->
  exists r h', send_nolock f E ch qid h = Ok (r, h') /\ submit_post f E ch qid h r h'.
Proof. exact send_exactly_once. Qed.
Print Assumptions C14_send_exactly_once.

(* when only the allocator can fail, whichever allocation group the (single) failure hits:
   the request proceeds, or its callback is invoked exactly once with ARES_ENOMEM, the call
   returns ARES_ENOMEM, nothing of the request remains and the ledger balances *)
Theorem C14_send_exactly_once_under_single_failure : forall f E ch qid h,
  single_failure f -> env_all_ok E ->
  heap_ok h -> fresh_qid ch qid -> env_modelled E ch ->
  exists r h', send_nolock f E ch qid h = Ok (r, h') /\ heap_ok h' /\
    ((exists q', r_query r = Some q' /\ r_cbs r = [] /\ r_status r = ARES_SUCCESS /\ q_qid q' = qid /\
                 ch_all (r_chan r) = ch_all ch ++ [qid] /\ ch_byqid (r_chan r) = qid :: ch_byqid ch /\
                 ch_bytmo (r_chan r) = qid :: ch_bytmo ch /\
                 length (h_live h') + 6 * length (ch_conns ch)
                   = length (h_live h) + length (qblocks q') + 6 * length (ch_conns (r_chan r)))
     \/
     (r_query r = None /\ r_cbs r = [ARES_ENOMEM] /\ r_status r = ARES_ENOMEM /\ (exists n, f n = false) /\
      ch_all (r_chan r) = ch_all ch /\ ch_byqid (r_chan r) = ch_byqid ch /\ ch_bytmo (r_chan r) = ch_bytmo ch /\
      (forall c, In c (ch_conns (r_chan r)) -> In c (ch_conns ch) \/ cn_queries c = []) /\
      length (h_live h') + 6 * length (ch_conns ch) = length (h_live h) + 6 * length (ch_conns (r_chan r)))).
Proof. exact send_single_failure. Qed.
Print Assumptions C14_send_exactly_once_under_single_failure.

(* ares_open_connection on its own: on failure nothing is kept and nothing is registered *)
Theorem C14_open_connection_unwinds : forall f E ch tcp att h,
  heap_ok h ->
  exists st oci ch1 h1, open_connection f E ch tcp att h = Ok ((st, oci, ch1), h1) /\ heap_ok h1 /\
    h_next h <= h_next h1 /\
    ch_all ch1 = ch_all ch /\ ch_byqid ch1 = ch_byqid ch /\ ch_bytmo ch1 = ch_bytmo ch /\
    ((oci = None /\ st <> ARES_SUCCESS /\ ((st = ARES_ENOMEM /\ exists n, f n = false) \/ st = e_sock E att) /\
      ch_conns ch1 = ch_conns ch /\ h_live h1 = h_live h) \/
     (exists c, oci = Some (if tcp then length (ch_conns ch) else 0) /\ st = ARES_SUCCESS /\
                cn_queries c = [] /\
                ch_conns ch1 = (if tcp then ch_conns ch ++ [c] else c :: ch_conns ch) /\
                exists new, length new = 6 /\ h_live h1 = new ++ h_live h)).
Proof. exact open_connection_spec. Qed.
Print Assumptions C14_open_connection_unwinds.

(* the executable oracle that judges the implementation accepts the model's failed submission *)
Theorem C14_send_failure_accepted_by_oracle : forall f E ch qid h base_cb base_ret,
  single_failure f -> env_all_ok E -> heap_ok h -> fresh_qid ch qid -> env_modelled E ch ->
  exists r h', send_nolock f E ch qid h = Ok (r, h') /\
    (r_query r = None ->
     judge_tok (mkTok qid 1 (r_cbs r) (Some (r_status r)) base_cb base_ret true false false) = []).
Proof. exact send_failure_judged. Qed.
Print Assumptions C14_send_failure_accepted_by_oracle.
