(* C14 - any single allocation failure is survived cleanly.  Statements only; proofs are in
   Alloc/*_proofs.v.  These theorems cover the MODELLED operations for every position of the
   failing allocation; all other allocation sites of the library are covered by the
   enumeration engine only (props/C14.manifest.json). *)
From CAres.Alloc Require Import ListAlloc ListAlloc_proofs.

Theorem C14_container_atomic_llist : forall f l pos v h,
  exists r l' h', llist_insert_at f l pos v h = Ok ((r, l'), h') /\ h_next h' = S (h_next h) /\
    match r with
    | None => f (h_next h) = false /\ l' = l /\ h_live h' = h_live h
    | Some n => f (h_next h) = true /\ l' = ll_attach l pos n /\ ln_val n = v /\
                ln_blk n = h_next h /\ h_live h' = ln_blk n :: h_live h
    end.
Proof. exact llist_insert_atomic. Qed.
Print Assumptions C14_container_atomic_llist.
