(* C10 - sockets are opened, announced, used and closed in a consistent protocol.
   Statements only; monitor and library model in Core/Conn.v, proofs in Core/Conn_proofs.v.

   Two layers:  (1) the library model (ares_open_connection with its unwind at every failure
   point, source-address probes, queries, read/write events, ares_close_connection in its two
   halves, ares_check_cleanup_conns, ares_destroy) only produces socket-layer traces the
   monitor accepts;  (2) what acceptance means for ANY trace (also the implementation's log,
   which the extracted monitor judges on every run). *)
From CAres.Base Require Import CInt.
From CAres.Gen Require Import Consts.
From CAres.Core Require Import Conn Conn_proofs.
Local Open Scope Z_scope.

(* (1) every trace of the library model is accepted, and the monitor ends in the state that
   mirrors the library's state *)
Theorem C10_model_accepted : forall cfg acts s tr,
  run cfg st_init acts = Some (s, tr) -> mon_run cfg mon_init tr = Accept (abs cfg s).
Proof. exact model_accepted. Qed.
Print Assumptions C10_model_accepted.

(* (2a) no I/O, option, connect, notification or close event on a descriptor after its close;
   in particular *)
Theorem C10_no_use_after_close : forall cfg t1 k t2 m,
  mon_run cfg mon_init (t1 ++ EClose k :: t2) = Accept m -> Forall (fun e => ev_fd e <> Some k) t2.
Proof. exact no_use_after_close. Qed.
Print Assumptions C10_no_use_after_close.

(* (2b) ... it is never closed twice, and (2c) when ares_destroy returns every descriptor ever
   obtained has been closed (so: exactly once) and nothing happens afterwards *)
Theorem C10_closed_exactly_once : forall cfg t1 k t2 m,
  mon_run cfg mon_init (t1 ++ EClose k :: t2) = Accept m -> ~ In (EClose k) t2.
Proof. exact closed_at_most_once. Qed.
Print Assumptions C10_closed_exactly_once.

Theorem C10_none_after_destroy : forall cfg t1 t2 m,
  mon_run cfg mon_init (t1 ++ EDestroyed :: t2) = Accept m ->
  t2 = [] /\ forall k tcp, In (ESocket k tcp) t1 -> In (EClose k) t1.
Proof. exact none_after_destroy. Qed.
Print Assumptions C10_none_after_destroy.

(* (2d) no UDP socket carries more queries than udp_max_queries *)
Theorem C10_udp_limit : forall cfg tr m k s, mon_run cfg mon_init tr = Accept m ->
  nth_error (mn_socks m) k = Some s -> ms_tcp s = false -> 0 < udp_max cfg ->
  count_tx k tr <= udp_max cfg.
Proof. exact udp_limit. Qed.
Print Assumptions C10_udp_limit.

(* (2e) notifications: only on change (so the first one announces interest), the application
   has been told to stop (or was never told to watch) when the descriptor is closed, the stop
   is final (exactly once), and a socket is read only while announced readable *)
Theorem C10_notify_paired_on_change : forall cfg t1 k f m,
  mon_run cfg mon_init (t1 ++ [ESockState k f]) = Accept m -> f <> last_notif k t1 0.
Proof. exact notify_on_change. Qed.
Print Assumptions C10_notify_paired_on_change.

Theorem C10_notify_paired_stop_before_close : forall cfg t1 k m,
  mon_run cfg mon_init (t1 ++ [EClose k]) = Accept m -> last_notif k t1 0 = 0.
Proof. exact stop_before_close. Qed.
Print Assumptions C10_notify_paired_stop_before_close.

Theorem C10_notify_paired_stop_final : forall cfg t1 k t2 m,
  mon_run cfg mon_init (t1 ++ ESockState k 0 :: t2) = Accept m -> Forall (fun e => forall f, e <> ESockState k f) t2.
Proof. exact stop_is_final. Qed.
Print Assumptions C10_notify_paired_stop_final.

Theorem C10_notify_paired_watch_before_read : forall cfg t1 k m, has_cb cfg = true ->
  mon_run cfg mon_init (t1 ++ [ERecvfrom k]) = Accept m ->
  Z.land (last_notif k t1 0) ARES_CONN_STATE_READ <> 0.
Proof. exact watched_before_read. Qed.
Print Assumptions C10_notify_paired_watch_before_read.

(* (3) ares_fds / ares_getsock: in every reachable quiescent state (no connection between the
   two halves of ares_close_connection) the read set is exactly the set of descriptors open at
   the socket layer, UDP ones only while queries are active; the write set is a subset. *)
Theorem C10_fds_exact : forall cfg acts s tr active,
  run cfg st_init acts = Some (s, tr) -> quiescent (st_socks s) = true ->
  fst (ares_fds_model s active) = mon_fds (abs cfg s) active /\
  mon_run cfg mon_init tr = Accept (abs cfg s).
Proof. exact fds_exact. Qed.
Print Assumptions C10_fds_exact.

Theorem C10_fds_write_subset : forall l i active k,
  In k (snd (fds_from i l active)) -> In k (fst (fds_from i l active)).
Proof. exact fds_write_subset. Qed.
Print Assumptions C10_fds_write_subset.
