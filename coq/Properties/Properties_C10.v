(* C10 - sockets are opened, announced, used and closed in a consistent protocol.
   Statements only; monitor and library model in Core/Conn.v, proofs in Core/Conn_proofs.v. *)
From CAres.Base Require Import CInt.
From CAres.Gen Require Import Consts.
From CAres.Core Require Import Conn Conn_proofs.
Local Open Scope Z_scope.

(* Every trace of socket-layer calls the library model can produce - any sequence of opens
   (with any failure at any step of ares_open_connection), source-address probes, queries,
   read/write events, answered queries, connection errors, clean-ups and a final destroy -
   is accepted by the socket-protocol monitor, and the monitor ends in the state that mirrors
   the library's state. *)
Theorem C10_model_accepted : forall cfg acts s tr,
  run cfg st_init acts = Some (s, tr) -> mon_run cfg mon_init tr = Accept (abs cfg s).
Proof. exact model_accepted. Qed.
Print Assumptions C10_model_accepted.
