(* C08 - the query cache only replays fresh, matching, successful answers.
   Statements only; model Core/QCache.v (ares_qcache.c), specification Core/QCacheSpec.v (history
   checker [hit_ok]), proofs Core/QCache_proofs.v.

   [wf_ops 0 ops]: operation times are within [0, 2^62) and never go back; TTLs and SOA MINIMUM
   fields are 32-bit values.  [judge_run max [] ops rs = true]: every hit in the run is explained by
   an earlier insertion since the last flush of a response for the same question (opcode, RD, CD,
   type, class, name up to ASCII case and one trailing dot), with rcode NOERROR/NXDOMAIN and TC
   clear, at a time t with t_insert <= t < t_insert + min(max_ttl, lifetime its TTLs allow), and all
   TTLs the caller reads equal max(0, ttl - (t - t_insert)). *)
From CAres.Base Require Import CInt.
From CAres.Core Require Import QCache QCacheSpec QCache_proofs SrvUpdate SrvUpdate_proofs SrvUpdate_more.
From CAres.Gen Require Import Consts LeafFns.

Theorem C08_hit_sound : forall mx ops,
  (0 <= mx < 2 ^ 32)%Z -> wf_ops 0 ops ->
  exists rs, qc_run (qc_create mx) ops = Ok rs /\ judge_run mx [] ops rs = true.
Proof. exact hit_sound_all. Qed.
Print Assumptions C08_hit_sound.

(* the table's (case-insensitive) key comparison decides exactly "same question" *)
Theorem C08_key_matches : forall a b, key_eqb (calc_key a) (calc_key b) = same_question a b.
Proof. exact key_matches. Qed.
Print Assumptions C08_key_matches.

Theorem C08_same_question_meaning : forall a b, same_question a b = true <-> same_question_P a b.
Proof. exact same_question_iff. Qed.
Print Assumptions C08_same_question_meaning.

Theorem C08_zero_disables : forall ops tprev,
  wf_ops tprev ops -> exists rs, qc_run (qc_create 0) ops = Ok rs /\ Forall disabled_res rs.
Proof. exact zero_disables_all. Qed.
Print Assumptions C08_zero_disables.

Theorem C08_flush_empties : forall mx t hist c,
  InvQC mx t hist c -> c_exp (qc_flush c) = [] /\ c_tab (qc_flush c) = [].
Proof. exact flush_empty. Qed.
Print Assumptions C08_flush_empties.

(* ares_servers_update (no ARES_FLAG_PRIMARY): afterwards the channel holds exactly the new
   configuration, and if the cache is NOT flushed the configured sequence of (address, udp port,
   tcp port) is the previous one - i.e. every edit that changes the list, a pure reorder included,
   flushes.  [denotes cur C]: the servers represent the sequence C (idx = position). *)
Theorem C08_flush_on_list_change : forall cu ct cur C new cur' changed,
  denotes cur C -> servers_update cu ct false cur new = (cur', changed) ->
  denotes cur' (dedupk [] (map (resolve cu ct) new)) /\
  (changed = false -> dedupk [] (map (resolve cu ct) new) = C).
Proof. exact update_flushes_on_change. Qed.
Print Assumptions C08_flush_on_list_change.

Theorem C08_flush_on_list_change_contrapositive : forall cu ct cur C new cur' changed,
  denotes cur C -> servers_update cu ct false cur new = (cur', changed) ->
  dedupk [] (map (resolve cu ct) new) <> C -> changed = true.
Proof. exact flush_on_list_change. Qed.
Print Assumptions C08_flush_on_list_change_contrapositive.

(* add-only, remove-only, replace, reorder, port change flush; identical / repeated entries do not *)
Theorem C08_flush_edit_examples :
  snd (servers_update 0 0 false ex_cur [exA; exB; exC]) = true /\
  snd (servers_update 0 0 false ex_cur [exA]) = true /\
  snd (servers_update 0 0 false ex_cur [exA; exC]) = true /\
  snd (servers_update 0 0 false ex_cur [exB; exA]) = true /\
  snd (servers_update 0 0 false ex_cur [exA; mkSc 2 5353 0]) = true /\
  snd (servers_update 0 0 false ex_cur [exA; exB]) = false /\
  snd (servers_update 0 0 false ex_cur [exA; exA; mkSc 2 53 53; exB]) = false.
Proof. exact ex_edits. Qed.
Print Assumptions C08_flush_edit_examples.

(* both settings of ARES_FLAG_PRIMARY (the flag trims the channel to the first server after the
   update, ares_servers_trim_single): the channel afterwards holds exactly the configured sequence
   [spec_seq_after] (the sequence the end-to-end engine chan08 judges hits against), and if the
   cache is NOT flushed the WHOLE new list is the previous sequence. *)
Theorem C08_flush_on_list_change_any_flag : forall cu ct primary cur C new cur' changed,
  denotes cur C -> servers_update cu ct primary cur new = (cur', changed) ->
  denotes cur' (spec_seq_after cu ct primary new) /\
  (changed = false ->
   dedupk [] (map (resolve cu ct) new) = C /\ spec_seq_after cu ct primary new = seq_kept primary C).
Proof. exact update_flushes_on_change_any_flag. Qed.
Print Assumptions C08_flush_on_list_change_any_flag.

(* [length C <= 1]: what every ARES_FLAG_PRIMARY update leaves behind (previous theorem) *)
Theorem C08_flush_on_list_change_any_flag_contrapositive : forall cu ct primary cur C new cur' changed,
  denotes cur C -> (primary = true -> (length C <= 1)%nat) ->
  servers_update cu ct primary cur new = (cur', changed) ->
  spec_seq_after cu ct primary new <> C -> changed = true.
Proof. exact flush_on_list_change_any_flag. Qed.
Print Assumptions C08_flush_on_list_change_any_flag_contrapositive.

(* no spurious flush: configuring the sequence the channel already has (the identical list, or one
   that only repeats entries) touches no server and keeps the cache; hence, without the flag, the
   cache is flushed IF AND ONLY IF the configured sequence changed *)
Theorem C08_no_spurious_flush : forall cu ct cur C new,
  denotes cur C -> dedupk [] (map (resolve cu ct) new) = C ->
  servers_update cu ct false cur new = (cur, false).
Proof. exact no_spurious_flush. Qed.
Print Assumptions C08_no_spurious_flush.

Theorem C08_flush_iff_list_changed : forall cu ct cur C new,
  denotes cur C ->
  (snd (servers_update cu ct false cur new) = false <-> dedupk [] (map (resolve cu ct) new) = C).
Proof. exact flush_iff_list_changed. Qed.
Print Assumptions C08_flush_iff_list_changed.

Theorem C08_flush_more_examples :
  servers_update 0 0 false ex_cur [exA; exB] = (ex_cur, false) /\
  servers_update 0 0 false ex_cur [exA; exA; exB; exA] = (ex_cur, false) /\
  servers_update 0 0 true ex_cur [exB; exA] = ([mkSrv (2%Z, 53%Z, 53%Z) 0], true) /\
  servers_update 0 0 true [mkSrv (2%Z, 53%Z, 53%Z) 0] [exB] = ([mkSrv (2%Z, 53%Z, 53%Z) 0], false).
Proof. exact more_examples. Qed.
Print Assumptions C08_flush_more_examples.

(* the generated ares_dns_rr_get_ttl ages every TTL by the record's ttl_decrement, never below 0 *)
Theorem C08_ttl_aged : forall ttl dec,
  (0 <= ttl < 2 ^ 32)%Z -> (0 <= dec)%Z -> c_ares_dns_rr_get_ttl dec ttl = Ok (aged ttl dec).
Proof. exact ttl_aged_generated. Qed.
Print Assumptions C08_ttl_aged.

(* the lifetime ares_qcache_insert_int computes = the lifetime the response's own TTLs allow *)
Theorem C08_lifetime_exact : forall rs,
  wf_resp rs ->
  (if (rs_rcode rs =? ARES_RCODE_NXDOMAIN)%Z then soa_minimum rs else calc_minttl rs) = allowed_ttl rs.
Proof. exact code_ttl_allowed. Qed.
Print Assumptions C08_lifetime_exact.

Theorem C08_expiry_invariant : forall mx tp hist c t rq c' h,
  InvQC mx tp hist c -> qc_fetch c t rq = Ok (c', h) -> Forall (fun e => (e_expire e > t)%Z) (c_exp c').
Proof. exact fetch_expiry. Qed.
Print Assumptions C08_expiry_invariant.

Theorem C08_example_wf : wf_ops 0 ex_ops.
Proof. exact ex_ops_wf. Qed.
Print Assumptions C08_example_wf.

Theorem C08_example_run :
  qc_run (qc_create 3600) ex_ops = Ok
    [ RIns ARES_SUCCESS; RFetch (Some (ex_resp 1 60, 10%Z)); RFetch (Some (ex_resp 1 60, 59%Z)); RFetch None;
      RIns ARES_SUCCESS; RFetch (Some (ex_resp 2 5000, 939%Z)); RFlush; RFetch None ].
Proof. exact ex_ops_run. Qed.
Print Assumptions C08_example_run.
