(* C11 (and the "every event backend" clause of C07) - no lost socket wake-up through the event
   thread's registration queue.  Statements only; model in Core/EvUpdates.v, proofs in
   Core/EvUpdates_proofs.v.  Client threads queue handle updates under the event thread's
   mutex (the channel's socket-state callback); the event thread applies the queue before every
   wait.  Descriptor numbers are reused by the OS. *)
From CAres.Core Require Import EvUpdates EvUpdates_proofs.
Local Open Scope Z_scope.

(* For EVERY sequence of updates and drains (any descriptor reuse, any position of the drains
   relative to the updates): whenever the queue has been applied, every key is watched by the
   backend as the socket that is open NOW, with the flags last asked for, and a closed socket
   is neither in the table nor at the backend. *)
Theorem C11_registration_coherent : forall ops k,
  let s := fst (run true init ops) in pending s = nil -> coherent_at s k = true.
Proof. exact evupd_coherent. Qed.
Print Assumptions C11_registration_coherent.

Theorem C11_registration_coherent_after_drain : forall ops k,
  coherent_at (fst (run true init (ops ++ ODrain :: nil))) k = true.
Proof. exact evupd_coherent_after_drain. Qed.
Print Assumptions C11_registration_coherent_after_drain.

(* ... and at no time is a backend call made that cannot succeed (modify of a registration the
   kernel dropped when the socket was closed, add of one it already has) *)
Theorem C11_registration_never_impossible_call : forall ops k, bad (fst (run true init ops)) k = false.
Proof. exact evupd_never_bad. Qed.
Print Assumptions C11_registration_never_impossible_call.

(* the drain empties the queue *)
Theorem C11_registration_drain_empties : forall s, pending (fst (drain s)) = nil.
Proof. exact drain_pending. Qed.
Print Assumptions C11_registration_drain_empties.

(* Why ares_event_update_find must skip queued removals: merging the re-open of a reused
   descriptor into its queued removal leaves the new socket unwatched. *)
Theorem C11_registration_merge_into_removal_refuted :
  exists ops k, coherent_at (fst (run false init (ops ++ ODrain :: nil))) k = false.
Proof. exact evupd_merge_into_removal_refuted. Qed.
Print Assumptions C11_registration_merge_into_removal_refuted.
