(* Proofs for the end-to-end part of C13 (coq/Legacy/Gai.v). *)
From CAres.Legacy Require Import Rec Legacy Legacy_spec Legacy_proofs AddrInfo AddrInfo_proofs Gai.
From CAres.Gen Require Import Consts.
Local Open Scope Z_scope.
Notation filter_map := Legacy_spec.filter_map.

Lemma in_skipn {A} (x : A) n : forall l, In x (skipn n l) -> In x l.
Proof. induction n as [|n IH]; intros l H; [exact H|]. destruct l as [|y l]; [contradiction|]. right. apply IH. exact H. Qed.

(* ------------------------------------------------------------------------------------ *)
(* merge of the sub-queries of one candidate name                                        *)
(* ------------------------------------------------------------------------------------ *)
Definition qres_wf (r : qres) : Prop :=
  match r with QOk rec => r_questions rec <> [] /\ True | QErr st => True /\ st <> ARES_SUCCESS end.
Definition family_ok (family : Z) : Prop := family = LEG_AF_UNSPEC \/ family = LEG_AF_INET \/ family = LEG_AF_INET6.

Lemma restrict_is_filter family l : restrict_family family l = filter (fun nd => n_family nd =? family) l.
Proof. induction l as [|nd l IH]; [reflexivity|]. cbn. rewrite IH. reflexivity. Qed.

Lemma wanted_single family l : family <> LEG_AF_UNSPEC ->
  filter (wanted family) l = filter (fun nd => n_family nd =? family) l.
Proof.
  intros Hf. apply filter_ext. intros nd. unfold wanted.
  destruct (Z.eqb_spec family LEG_AF_UNSPEC); [contradiction | reflexivity].
Qed.

Lemma wanted_unspec l : filter (wanted LEG_AF_UNSPEC) l = l.
Proof. induction l as [|nd l IH]; [reflexivity|]. cbn. rewrite IH. reflexivity. Qed.

Lemma filter_id {A} (f : A -> bool) l : Forall (fun x => f x = true) l -> filter f l = l.
Proof. induction 1 as [|x l Hx _ IH]; [reflexivity|]. cbn. rewrite Hx, IH. reflexivity. Qed.

(* folding one answer into the shared addrinfo appends exactly the address records of that
   answer that belong to the requested family *)
Lemma hc_parse_nodes family port ai r :
  qres_wf r -> Forall (fun nd => wanted family nd = true) (ai_nodes ai) ->
  ai_nodes (snd (hc_parse family port ai r)) = ai_nodes ai ++ answer_nodes family port r /\
  (fst (hc_parse family port ai r) = ARES_SUCCESS \/ fst (hc_parse family port ai r) = ARES_ENODATA).
Proof.
  intros Hwf Hall. destruct r as [rec|st]; cbn [hc_parse answer_nodes].
  2:{ rewrite app_nil_r. auto. }
  cbn [qres_wf] in Hwf. destruct Hwf as [Hwf _]. destruct (r_questions rec) as [|q qs] eqn:Hq; [congruence|].
  rewrite (pia_general rec q qs true port ai Hq). cbv zeta.
  rewrite orb_true_r, andb_true_r.
  destruct (spec_nodes port (r_answers rec)) as [|n nodes] eqn:En; cbn [is_nil].
  - cbn [Z.eqb]. change (ARES_ENODATA =? ARES_SUCCESS) with false. cbn [andb fst snd filter].
    rewrite app_nil_r. auto.
  - change (ARES_SUCCESS =? ARES_SUCCESS) with true. cbn [andb].
    destruct (Z.eqb_spec family LEG_AF_UNSPEC) as [->|Hne]; cbn [negb].
    + cbn [fst snd ai_nodes]. rewrite wanted_unspec. auto.
    + cbn [ai_nodes]. rewrite restrict_is_filter, filter_app.
      rewrite <- (wanted_single family (ai_nodes ai) Hne), (filter_id _ _ Hall).
      rewrite <- (wanted_single family (n :: nodes) Hne).
      destruct (ai_nodes ai ++ filter (wanted family) (n :: nodes)) as [|x l] eqn:E; cbn [fst snd ai_nodes]; auto.
Qed.

Lemma hc_parse_wanted family port ai r :
  qres_wf r -> Forall (fun nd => wanted family nd = true) (ai_nodes ai) ->
  Forall (fun nd => wanted family nd = true) (ai_nodes (snd (hc_parse family port ai r))).
Proof.
  intros Hwf Hall. destruct (hc_parse_nodes family port ai r Hwf Hall) as [-> _].
  apply Forall_app. split; [exact Hall|].
  destruct r as [rec|st]; cbn [answer_nodes]; [|constructor].
  apply Forall_forall. intros x Hx. apply filter_In in Hx. apply Hx.
Qed.

Lemma hc_parse_success_nodes family port ai r :
  qres_wf r -> Forall (fun nd => wanted family nd = true) (ai_nodes ai) ->
  qres_status r = ARES_SUCCESS -> fst (hc_parse family port ai r) = ARES_SUCCESS ->
  ai_nodes (snd (hc_parse family port ai r)) <> [].
Proof.
  intros Hwf Hall Hs. destruct r as [rec|st]; cbn [hc_parse qres_wf qres_status] in *.
  2:{ destruct Hwf as [_ Hne]. congruence. }
  destruct Hwf as [Hq _]. destruct (r_questions rec) as [|q qs] eqn:Eq; [congruence|].
  rewrite (pia_general rec q qs true port ai Eq). cbv zeta.
  rewrite orb_true_r, andb_true_r.
  destruct (spec_nodes port (r_answers rec)) as [|n nodes] eqn:En; cbn [is_nil].
  - change (ARES_ENODATA =? ARES_SUCCESS) with false. cbn [andb fst]. discriminate.
  - change (ARES_SUCCESS =? ARES_SUCCESS) with true. cbn [andb].
    destruct (negb (family =? LEG_AF_UNSPEC)).
    + cbn [ai_nodes]. destruct (restrict_family family (ai_nodes ai ++ n :: nodes)); cbn [fst snd ai_nodes]; [discriminate | discriminate].
    + cbn [fst snd ai_nodes]. intros _. destruct (ai_nodes ai); discriminate.
Qed.

(* the decision ladder: success only with addresses, another name only without *)
Lemma hc_decide_cases sl status ais ai nodata d nodata' :
  (ais = ARES_SUCCESS \/ ais = ARES_ENODATA) ->
  (status = ARES_SUCCESS -> ais = ARES_SUCCESS -> ai_nodes ai <> []) ->
  hc_decide sl status ais ai nodata = (d, nodata') ->
  match d with
  | DEnd st => st = ARES_SUCCESS -> ai_nodes ai <> []
  | DNext _ => ai_nodes ai = []
  end.
Proof.
  intros Hais Hs. unfold hc_decide.
  destruct ((status =? ARES_EDESTRUCTION) || (status =? ARES_ECANCELLED)) eqn:E1.
  { intros [= <- _]. intros ->. apply orb_prop in E1. destruct E1 as [E|E]; apply Z.eqb_eq in E; discriminate E. }
  destruct (hs_nomem nodata); [intros [= <- _]; discriminate|].
  destruct (negb (ais =? ARES_SUCCESS) && negb (ais =? ARES_ENODATA)) eqn:E2.
  { destruct Hais as [-> | ->]; discriminate E2. }
  destruct (negb (is_nil (ai_nodes ai))) eqn:E3.
  { intros [= <- _]. intros _. destruct (ai_nodes ai); discriminate. }
  assert (Hnil : ai_nodes ai = []) by (destruct (ai_nodes ai); [reflexivity | discriminate E3]).
  destruct ((status =? ARES_ENOTFOUND) || (status =? ARES_ENODATA) || (ais =? ARES_ENODATA)) eqn:E4; [intros [= <- _]; exact Hnil|].
  destruct (((status =? ARES_ESERVFAIL) || (status =? ARES_EREFUSED)) && sl); [intros [= <- _]; exact Hnil|].
  intros [= <- _]. intros ->.
  destruct Hais as [-> | ->]; [exact (Hs eq_refl eq_refl) | rewrite orb_true_r in E4; discriminate E4].
Qed.

Lemma run_round_spec family port sl : forall arrivals remaining ai nodata d ai' nodata',
  (1 <= remaining)%nat ->
  Forall qres_wf (firstn remaining arrivals) ->
  Forall (fun nd => wanted family nd = true) (ai_nodes ai) ->
  run_round family port sl arrivals remaining ai nodata = Ok (d, ai', nodata') ->
  ai_nodes ai' = ai_nodes ai ++ flat_map (answer_nodes family port) (firstn remaining arrivals) /\
  match d with
  | DEnd st => st = ARES_SUCCESS -> ai_nodes ai' <> []
  | DNext _ => ai_nodes ai' = []
  end.
Proof.
  induction arrivals as [|r rest IH]; intros remaining ai nodata d ai' nodata' Hrem Hwf Hall Hrun.
  - discriminate Hrun.
  - cbn [run_round] in Hrun.
    destruct remaining as [|[|rem]]; [lia| |].
    + (* last outstanding sub-query *)
      cbn [firstn] in *. inversion Hwf as [|? ? Hr _]; subst.
      destruct (hc_parse_nodes family port ai r Hr Hall) as [Hn Hst].
      pose proof (hc_parse_success_nodes family port ai r Hr Hall) as Hsn.
      destruct (hc_parse family port ai r) as [ais ai1] eqn:Ep. cbn [fst snd] in *.
      destruct (hc_decide sl (qres_status r) ais ai1 (hc_note (qres_status r) ais false nodata)) as [d0 nd0] eqn:Ed.
      injection Hrun as <- <- <-.
      split; [cbn [flat_map]; rewrite app_nil_r; exact Hn|].
      apply (hc_decide_cases sl (qres_status r) ais ai1 (hc_note (qres_status r) ais false nodata) d0 nd0 Hst); [|exact Ed].
      intros Hs Ha. apply Hsn; assumption.
    + (* another sub-query is still outstanding *)
      cbn [firstn] in Hwf. inversion Hwf as [|? ? Hr Hrest]; subst.
      destruct (hc_parse_nodes family port ai r Hr Hall) as [Hn _].
      pose proof (hc_parse_wanted family port ai r Hr Hall) as Hw.
      destruct (hc_parse family port ai r) as [ais ai1] eqn:Ep. cbn [fst snd] in *.
      destruct (IH (S rem) ai1 (hc_note (qres_status r) ais true nodata) d ai' nodata' ltac:(lia) Hrest Hw Hrun) as [Hn2 Hd].
      split; [|exact Hd].
      rewrite Hn2, Hn. cbn [firstn flat_map]. rewrite app_assoc. reflexivity.
Qed.

(* the candidate names, one after the other: the walk ends successfully at the FIRST name
   whose accepted answers carry an address of the requested family, with exactly those *)
Definition round_wf (family : Z) (r : round) : Prop := Forall qres_wf (firstn (nqueries family) (r_arrivals r)).

Lemma dns_lookups_spec family port : forall rounds ai nodata status fin ai' nodata' status',
  Forall (round_wf family) rounds -> ai_nodes ai = [] ->
  dns_lookups family port rounds ai nodata status = Ok (fin, ai', nodata', status') ->
  match fin with
  | Some st => st = ARES_SUCCESS ->
               ai_nodes ai' = first_round_nodes family port rounds /\ ai_nodes ai' <> []
  | None => ai_nodes ai' = [] /\ first_round_nodes family port rounds = []
  end.
Proof.
  induction rounds as [|r rest IH]; intros ai nodata status fin ai' nodata' status' Hwf Hnil Hrun.
  - cbn in Hrun. injection Hrun as <- <- <- <-. auto.
  - cbn [dns_lookups] in Hrun. inversion Hwf as [|? ? Hr Hrest]; subst.
    destruct (run_round family port (r_single_label r) (r_arrivals r) (nqueries family) ai nodata)
      as [[[d ai1] nd1]| |] eqn:Er; cbn [bind] in Hrun; try discriminate.
    assert (Hq : (1 <= nqueries family)%nat) by (unfold nqueries; destruct (family =? LEG_AF_UNSPEC); lia).
    assert (Hall : Forall (fun nd => wanted family nd = true) (ai_nodes ai)) by (rewrite Hnil; constructor).
    destruct (run_round_spec family port _ _ _ _ _ _ _ _ Hq Hr Hall Er) as [Hn Hd].
    rewrite Hnil in Hn. cbn [app] in Hn. fold (round_nodes family port r) in Hn.
    cbn [first_round_nodes].
    destruct d as [st|st].
    + injection Hrun as <- <- <- <-. intros Hs. specialize (Hd Hs).
      rewrite <- Hn. destruct (ai_nodes ai1) as [|x l] eqn:E; [congruence|]. split; [reflexivity | discriminate].
    + rewrite <- Hn, Hd. apply (IH ai1 nd1 st fin ai' nodata' status' Hrest Hd Hrun).
Qed.

Lemma hc_decide_next_status sl status ais ai nodata st nodata' :
  hc_decide sl status ais ai nodata = (DNext st, nodata') -> st <> ARES_SUCCESS.
Proof.
  unfold hc_decide.
  destruct ((status =? ARES_EDESTRUCTION) || (status =? ARES_ECANCELLED)); [discriminate|].
  destruct (hs_nomem nodata); [discriminate|].
  destruct (negb (ais =? ARES_SUCCESS) && negb (ais =? ARES_ENODATA)).
  { destruct ((ais =? ARES_EBADRESP) && negb (is_nil (ai_nodes ai))); discriminate. }
  destruct (negb (is_nil (ai_nodes ai))); [discriminate|].
  destruct ((status =? ARES_ENOTFOUND) || (status =? ARES_ENODATA) || (ais =? ARES_ENODATA)) eqn:E4.
  { destruct ((status =? ARES_ENODATA) || (ais =? ARES_ENODATA)) eqn:E5; cbn [Nat.eqb].
    - intros [= <- _]. discriminate.
    - destruct (Nat.eqb (hs_nodata nodata) 0); intros [= <- _]; [|discriminate].
      apply orb_false_elim in E5. destruct E5 as [E5 E6]. rewrite E5, E6, !orb_false_r in E4.
      apply Z.eqb_eq in E4. rewrite E4. discriminate. }
  destruct (((status =? ARES_ESERVFAIL) || (status =? ARES_EREFUSED)) && sl) eqn:E5; [|discriminate].
  destruct (Nat.eqb (hs_nodata nodata) 0); intros [= <- _]; [|discriminate].
  apply andb_prop in E5. destruct E5 as [E5 _]. apply orb_prop in E5.
  destruct E5 as [E|E]; apply Z.eqb_eq in E; rewrite E; discriminate.
Qed.

Lemma run_round_next_status family port sl : forall arrivals remaining ai nodata st ai' nodata',
  run_round family port sl arrivals remaining ai nodata = Ok (DNext st, ai', nodata') -> st <> ARES_SUCCESS.
Proof.
  induction arrivals as [|r rest IH]; intros remaining ai nodata st ai' nodata' Hrun; [discriminate|].
  cbn [run_round] in Hrun. destruct (hc_parse family port ai r) as [ais ai1].
  destruct remaining as [|[|rem]].
  - destruct (hc_decide sl (qres_status r) ais ai1 (hc_note (qres_status r) ais false nodata)) as [d0 nd0] eqn:Ed. injection Hrun as -> _ _.
    exact (hc_decide_next_status _ _ _ _ _ _ _ Ed).
  - destruct (hc_decide sl (qres_status r) ais ai1 (hc_note (qres_status r) ais false nodata)) as [d0 nd0] eqn:Ed. injection Hrun as -> _ _.
    exact (hc_decide_next_status _ _ _ _ _ _ _ Ed).
  - exact (IH _ _ _ _ _ _ Hrun).
Qed.

Lemma dns_lookups_status family port : forall rounds ai nodata status ai' nodata' status',
  status <> ARES_SUCCESS ->
  dns_lookups family port rounds ai nodata status = Ok (None, ai', nodata', status') -> status' <> ARES_SUCCESS.
Proof.
  induction rounds as [|r rest IH]; intros ai nodata status ai' nodata' status' Hs Hrun.
  - cbn in Hrun. injection Hrun as _ _ <-. exact Hs.
  - cbn [dns_lookups] in Hrun.
    destruct (run_round family port (r_single_label r) (r_arrivals r) (nqueries family) ai nodata)
      as [[[d ai1] nd1]| |] eqn:Er; cbn [bind] in Hrun; try discriminate.
    destruct d as [st|st]; [discriminate|].
    apply (IH ai1 nd1 st ai' nodata' status' (run_round_next_status _ _ _ _ _ _ _ _ _ _ Er) Hrun).
Qed.

(* ------------------------------------------------------------------------------------ *)
(* hosts file entry -> nodes, loopback rule                                              *)
(* ------------------------------------------------------------------------------------ *)
Lemma entry_nodes_spec ips family port : forall acc,
  entry_nodes ips family port acc =
  acc ++ map (fun ip => mkNode (fst ip) (snd ip) port 0)
             (filter (fun ip => (family =? LEG_AF_UNSPEC) || (family =? fst ip)) ips).
Proof.
  induction ips as [|ip ips IH]; intros acc; cbn [entry_nodes filter map].
  - rewrite app_nil_r. reflexivity.
  - destruct ((family =? LEG_AF_UNSPEC) || (family =? fst ip)); [|apply IH].
    rewrite IH. cbn [map]. rewrite <- app_assoc. reflexivity.
Qed.

Lemma spec_loopback_nonempty family port nodes : family_ok family -> spec_loopback family port nodes <> [].
Proof.
  intros Hf. unfold spec_loopback. destruct nodes as [|n nodes]; [|discriminate].
  cbn [existsb negb andb app]. destruct Hf as [-> | [-> | ->]]; discriminate.
Qed.

Lemma gai_file_lookup_spec hf name family port flags ai st ai' :
  family_ok family -> ai_nodes ai = [] ->
  gai_file_lookup hf name family port flags ai = (st, ai') ->
  (st = ARES_SUCCESS -> ai_nodes ai' = spec_file_nodes hf name family port /\ ai_nodes ai' <> []) /\
  (st <> ARES_SUCCESS -> ai_nodes ai' = [] /\ spec_file_nodes hf name family port = []).
Proof.
  intros Hf Hnil. unfold gai_file_lookup, spec_file_nodes, spec_hosts_nodes.
  assert (Hv : negb ((family =? LEG_AF_INET) || (family =? LEG_AF_INET6) || (family =? LEG_AF_UNSPEC)) = false)
    by (destruct Hf as [-> | [-> | ->]]; reflexivity).
  destruct (hosts_search_host hf name) as [e|] eqn:Eh.
  - unfold entry_to_addrinfo. rewrite Hv. cbn [negb]. rewrite entry_nodes_spec. cbn [app].
    match goal with |- context [match ?X with [] => _ | _ :: _ => _ end] => destruct X as [|x l] eqn:EL end; cbv beta iota zeta.
    + destruct (is_localhost name).
      * rewrite (localhost_spec name port family _ Hf). intros [= <- <-]. cbn [ai_nodes]. rewrite Hnil.
        split; [intros _; split; [reflexivity | apply spec_loopback_nonempty; exact Hf] | congruence].
      * intros [= <- <-]. cbn [ai_nodes]. split; [discriminate | intros _; split; [exact Hnil | reflexivity]].
    + destruct (is_localhost name).
      * rewrite (localhost_spec name port family _ Hf). intros [= <- <-]. cbn [ai_nodes]. rewrite Hnil. cbn [app].
        split; [intros _; split; [reflexivity | apply spec_loopback_nonempty; exact Hf] | congruence].
      * intros [= <- <-]. cbn [ai_nodes]. rewrite Hnil. cbn [app].
        split; [intros _; split; [reflexivity | discriminate] | congruence].
  - cbv beta iota zeta. destruct (is_localhost name).
    + rewrite (localhost_spec name port family _ Hf). intros [= <- <-]. cbn [ai_nodes]. rewrite Hnil.
      split; [intros _; split; [reflexivity | apply spec_loopback_nonempty; exact Hf] | congruence].
    + intros [= <- <-]. split; [discriminate | intros _; split; [exact Hnil | reflexivity]].
Qed.

(* ------------------------------------------------------------------------------------ *)
(* the whole walk over the lookup string                                                 *)
(* ------------------------------------------------------------------------------------ *)
Lemma next_lookup_spec hf name family port flags : forall lookups rounds ai nodata status st ai',
  family_ok family -> Forall (round_wf family) rounds -> ai_nodes ai = [] -> status <> ARES_SUCCESS ->
  next_lookup hf name family port flags lookups rounds ai nodata status = Ok (st, ai') ->
  st = ARES_SUCCESS ->
  ai_nodes ai' = spec_lookup_nodes hf name family port lookups rounds /\ ai_nodes ai' <> [].
Proof.
  induction lookups as [|l rest IH]; intros rounds ai nodata status st ai' Hf Hwf Hnil Hst Hrun Hs.
  - cbn in Hrun. injection Hrun as <- <-. congruence.
  - destruct l; cbn [next_lookup spec_lookup_nodes] in *.
    + destruct (is_localhost name); [exact (IH _ _ _ _ _ _ Hf Hwf Hnil Hst Hrun Hs)|].
      destruct (dns_lookups family port rounds ai nodata status) as [[[[fin ai1] nd1] st1]| |] eqn:Ed;
        cbn [bind] in Hrun; try discriminate.
      pose proof (dns_lookups_spec family port rounds ai nodata status fin ai1 nd1 st1 Hwf Hnil Ed) as Hd.
      destruct fin as [stf|].
      * injection Hrun as <- <-. destruct (Hd Hs) as [Hn Hne]. rewrite <- Hn.
        destruct (ai_nodes ai1); [congruence | auto].
      * destruct Hd as [Hn1 Hfr]. rewrite Hfr.
        apply (IH [] ai1 nd1 st1 st ai' Hf (Forall_nil _) Hn1 (dns_lookups_status _ _ _ _ _ _ _ _ _ Hst Ed) Hrun Hs).
    + destruct (gai_file_lookup hf name family port flags ai) as [stf aif] eqn:Ef.
      destruct (gai_file_lookup_spec hf name family port flags ai stf aif Hf Hnil Ef) as [Hok Hko].
      destruct (Z.eqb_spec stf ARES_SUCCESS) as [E|E].
      * injection Hrun as <- <-. destruct (Hok E) as [Hn Hne]. rewrite <- Hn.
        destruct (ai_nodes aif); [congruence | auto].
      * destruct (Hko E) as [Hn Hsp]. rewrite Hsp.
        exact (IH _ _ _ _ _ _ Hf Hwf Hn Hst Hrun Hs).
Qed.

(* ares_getaddrinfo: when it reports success, the nodes are exactly those of ONE source -
   the literal, or (walking the lookup string) the hosts-file entry / loopback rule, or the
   accepted answers of the first candidate name that has an address of the requested family -
   in arrival order, restricted to the family, with the caller's port and the record TTLs *)
Theorem getaddrinfo_exact hf lookups name family port flags p4 p6 rounds ai :
  Forall (round_wf family) rounds ->
  getaddrinfo hf lookups name family (Some port) flags p4 p6 ARES_SUCCESS rounds = Ok (ARES_SUCCESS, Some ai) ->
  match fake_addrinfo name family port flags p4 p6 with
  | FAddr lit => ai = lit
  | FFail _ => False
  | FNone => ai_nodes ai = spec_lookup_nodes hf name family port lookups rounds /\ ai_nodes ai <> []
  end.
Proof.
  intros Hwf. unfold getaddrinfo.
  destruct (negb ((family =? LEG_AF_INET) || (family =? LEG_AF_INET6) || (family =? LEG_AF_UNSPEC))) eqn:Ev; [discriminate|].
  assert (Hf : family_ok family).
  { unfold family_ok. apply negb_false_iff in Ev. apply orb_prop in Ev. destruct Ev as [Ev|Ev];
      [apply orb_prop in Ev; destruct Ev as [Ev|Ev]|]; apply Z.eqb_eq in Ev; auto. }
  destruct (fake_addrinfo name family port flags p4 p6) as [|lit|fst]; [|intros [= <-]; reflexivity|discriminate].
  change (negb (ARES_SUCCESS =? ARES_SUCCESS)) with false. cbv iota.
  destruct (next_lookup hf name family port flags lookups rounds ai_empty hst0 ARES_ECONNREFUSED) as [[st ai1]| |] eqn:En;
    cbn [bind]; try discriminate.
  destruct (Z.eqb_spec st ARES_SUCCESS) as [E|E]; [|intros [= Hx]; congruence].
  intros [= _ <-].
  apply (next_lookup_spec hf name family port flags lookups rounds ai_empty hst0 ARES_ECONNREFUSED st ai1 Hf Hwf eq_refl);
    [discriminate | exact En | exact E].
Qed.

(* a failure never hands out an addrinfo *)
Theorem getaddrinfo_failure hf lookups name family port flags p4 p6 ns rounds st r :
  getaddrinfo hf lookups name family port flags p4 p6 ns rounds = Ok (st, r) -> st <> ARES_SUCCESS -> r = None.
Proof.
  unfold getaddrinfo.
  destruct (negb _); [intros [= <- <-]; reflexivity|].
  destruct port as [port|]; [|intros [= <- <-]; reflexivity].
  destruct (fake_addrinfo name family port flags p4 p6); [|intros [= <- <-]; congruence|intros [= <- <-]; reflexivity].
  destruct (negb (ns =? ARES_SUCCESS)); [intros [= <- <-]; reflexivity|].
  destruct (next_lookup _ _ _ _ _ _ _ _ _ _) as [[st1 ai1]| |]; cbn [bind]; try discriminate.
  destruct (Z.eqb_spec st1 ARES_SUCCESS); intros [= <- <-]; [congruence | reflexivity].
Qed.

(* a literal: exactly the address it denotes, of a family that was asked for, with the
   caller's port and TTL 0 *)
Theorem literal_node name family port flags p4 p6 ai :
  fake_addrinfo name family port flags p4 p6 = FAddr ai ->
  exists a, (ai_nodes ai = [mkNode LEG_AF_INET a port 0] /\ p4 = Some a /\ family <> LEG_AF_INET6) \/
            (ai_nodes ai = [mkNode LEG_AF_INET6 a port 0] /\ p6 = Some a /\ family <> LEG_AF_INET).
Proof.
  unfold fake_addrinfo.
  set (r4 := if (family =? LEG_AF_INET) || (family =? LEG_AF_INET6) || (family =? LEG_AF_UNSPEC) then _ else None).
  assert (H4 : forall a, r4 = Some a -> p4 = Some a).
  { unfold r4. intros a. destruct ((family =? LEG_AF_INET) || _ || _); [|discriminate].
    destruct (forallb is_digit_dot name && _); [auto | discriminate]. }
  destruct r4 as [a|].
  - destruct (Z.eqb_spec family LEG_AF_INET6) as [|Hne]; [discriminate|].
    intros [= <-]. exists a. left. split; [reflexivity|]. split; [apply H4; reflexivity | exact Hne].
  - destruct ((family =? LEG_AF_INET6) || (family =? LEG_AF_UNSPEC)) eqn:E6; [|discriminate].
    destruct p6 as [a|]; [|discriminate]. intros [= <-]. exists a. right. split; [reflexivity|]. split; [reflexivity|].
    intros ->. discriminate E6.
Qed.

(* a dotted-quad literal never satisfies an AF_INET6 request *)
Theorem literal_other_family name port flags p4 p6 a :
  forallb is_digit_dot name && Nat.eqb (count_dots name) 3 = true -> p4 = Some a ->
  fake_addrinfo name LEG_AF_INET6 port flags p4 p6 = FFail ARES_ENOTFOUND.
Proof. intros Hd ->. unfold fake_addrinfo. cbn. rewrite Hd. reflexivity. Qed.

(* no address is invented: every node of a successful DNS round is an address record of one
   of the accepted answers of that round (content in C13_nodes_are_the_records) *)
Lemma round_nodes_sound family port r nd : In nd (round_nodes family port r) ->
  exists rec, In (QOk rec) (r_arrivals r) /\ In nd (spec_nodes port (r_answers rec)) /\ wanted family nd = true.
Proof.
  unfold round_nodes. intros H. apply in_flat_map in H. destruct H as (q & Hq & Hn).
  destruct q as [rec|st]; cbn [answer_nodes] in Hn; [|destruct Hn].
  apply filter_In in Hn. exists rec. split; [eapply in_firstn; exact Hq | exact Hn].
Qed.

(* ------------------------------------------------------------------------------------ *)
(* hosts file: nothing invented                                                          *)
(* ------------------------------------------------------------------------------------ *)
Definition hf_sound (lines : list hline) (hf : hfile) : Prop :=
  forall e ip, In e (hf_entries hf) -> In ip (he_ips e) -> exists l, In l lines /\ hl_ip l = ip.

Lemma update_entry_in es i f e' : In e' (update_entry es i f) ->
  In e' es \/ exists e, nth_error es i = Some e /\ e' = f e.
Proof.
  unfold update_entry. destruct (nth_error es i) as [e|] eqn:E; [|auto].
  intros H. apply in_app_or in H. destruct H as [H | [<- | H]].
  - left. eapply in_firstn. exact H.
  - right. eauto.
  - left. eapply in_skipn. exact H.
Qed.

Lemma hosts_add_sound lines hf l : hf_sound lines hf -> hf_sound (lines ++ [l]) (hosts_add hf l).
Proof.
  intros Hs e ip He Hip. unfold hosts_add in He.
  assert (Hold : forall e0, In e0 (hf_entries hf) -> In ip (he_ips e0) -> exists l0, In l0 (lines ++ [l]) /\ hl_ip l0 = ip).
  { intros e0 H0 H1. destruct (Hs e0 ip H0 H1) as (l0 & Hl0 & E). exists l0. split; [apply in_or_app; left; exact Hl0 | exact E]. }
  assert (Hnew : exists l0, In l0 (lines ++ [l]) /\ hl_ip l0 = hl_ip l)
    by (exists l; split; [apply in_or_app; right; left; reflexivity | reflexivity]).
  destruct (hosts_match hf l) as [|i|i]; cbn [hf_entries] in He.
  - apply in_app_or in He. destruct He as [He | [<- | []]]; [exact (Hold e He Hip)|].
    cbn [he_ips] in Hip. destruct Hip as [<- | []]. exact Hnew.
  - apply update_entry_in in He. destruct He as [He | (e0 & Hn & ->)]; [exact (Hold e He Hip)|].
    cbn [he_ips] in Hip. apply (Hold e0 (nth_error_In _ _ Hn) Hip).
  - apply update_entry_in in He. destruct He as [He | (e0 & Hn & ->)]; [exact (Hold e He Hip)|].
    cbn [he_ips] in Hip. apply in_app_or in Hip. destruct Hip as [Hip | [<- | []]]; [|exact Hnew].
    apply (Hold e0 (nth_error_In _ _ Hn) Hip).
Qed.

Lemma hosts_fold_sound ls : forall pre hf, hf_sound pre hf -> hf_sound (pre ++ ls) (fold_left hosts_add ls hf).
Proof.
  induction ls as [|l ls IH]; intros pre hf Hs; cbn [fold_left].
  - rewrite app_nil_r. exact Hs.
  - replace (pre ++ l :: ls) with ((pre ++ [l]) ++ ls) by (rewrite <- app_assoc; reflexivity).
    apply IH. apply hosts_add_sound. exact Hs.
Qed.

(* every address of every entry of the parsed hosts file stands on some line of the file;
   hence every node ares_getaddrinfo takes from the hosts file does *)
Theorem hosts_build_sound lines : hf_sound lines (hosts_build lines).
Proof. apply (hosts_fold_sound lines [] hf_empty). intros e ip []. Qed.

Theorem hosts_nodes_sound lines name family port nd :
  In nd (spec_hosts_nodes (hosts_build lines) name family port) ->
  exists l, In l lines /\ hl_ip l = (n_family nd, n_addr nd) /\ n_port nd = port /\ n_ttl nd = 0 /\ wanted family nd = true.
Proof.
  unfold spec_hosts_nodes, hosts_search_host.
  destruct (host_get (hf_hosthash (hosts_build lines)) name) as [i|]; [|intros []].
  destruct (nth_error (hf_entries (hosts_build lines)) i) as [e|] eqn:E; [|intros []].
  intros H. apply in_map_iff in H. destruct H as (ip & <- & Hip). apply filter_In in Hip. destruct Hip as [Hip Hf].
  destruct (hosts_build_sound lines e ip (nth_error_In _ _ E) Hip) as (l & Hl & El).
  exists l. cbn. rewrite El. destruct ip. cbn in *. repeat split; try assumption; try reflexivity.
  unfold wanted. cbn. rewrite (Z.eqb_sym z family). exact Hf.
Qed.

(* ------------------------------------------------------------------------------------ *)
(* ares_gethostbyaddr                                                                    *)
(* ------------------------------------------------------------------------------------ *)
Lemma parse_ptr_dnsrec_spec rec q qs addr addrlen family : r_questions rec = q :: qs ->
  observe_hostres (parse_ptr_reply_dnsrec rec addr addrlen family) = Ok (spec_ptr rec addr addrlen family).
Proof.
  intros Hq. unfold parse_ptr_reply_dnsrec, spec_ptr. rewrite Hq.
  destruct (r_answers rec) as [|r rest] eqn:E; [reflexivity|].
  set (ans := r :: rest).
  assert (Hnz : Nat.eqb (length ans) 0 = false) by reflexivity.
  rewrite Hnz.
  pose proof (ptr_loop_spec ans [] (S (length ans)) None) as H.
  cbn [map app] in H. change (length (@nil str)) with 0%nat in H.
  pose proof (filter_map_length proj_ptr ans) as Hlen.
  rewrite H by lia. clear H. cbn [bind].
  destruct (Legacy_spec.filter_map proj_ptr ans) as [|n names] eqn:En; [reflexivity|].
  cbn [Nat.add]. change (Nat.eqb (length (n :: names)) 0) with false. cbv iota.
  unfold observe_hostres, observe_host, view_host. cbn [bind snd fst h_aliases h_addr_list].
  unfold view_slots at 1. rewrite until_null_fill_repeat by lia. cbn [bind].
  unfold last_or.
  destruct addr as [a|]; [destruct (addrlen >? 0)|]; reflexivity.
Qed.

Definition rfc_name (family : Z) (addr : bin) : str :=
  if family =? LEG_AF_INET then rfc_ptr4 addr else rfc_ptr6 addr.
Definition addr_ok (family : Z) (addr : bin) : Prop :=
  Forall is_byte addr /\ ((family = LEG_AF_INET /\ length addr = 4%nat) \/ (family = LEG_AF_INET6 /\ length addr = 16%nat)).

Lemma addr_to_ptr_rfc family addr : addr_ok family addr -> addr_to_ptr family addr = Ok (Some (rfc_name family addr)).
Proof.
  intros [Hb [[-> Hl] | [-> Hl]]]; unfold rfc_name.
  - change (LEG_AF_INET =? LEG_AF_INET) with true. apply addr_to_ptr_rfc4; assumption.
  - change (LEG_AF_INET6 =? LEG_AF_INET) with false. apply addr_to_ptr_rfc6; assumption.
Qed.

(* reverse lookups query exactly the reverse-map name of the address - nothing else *)
Theorem ghba_queries_rfc_name hf family addr : addr_ok family addr ->
  forall lookups answers queried0 q st hv,
  ghba_lookup hf family addr lookups answers queried0 = Ok (q, st, hv) ->
  exists k, q = queried0 ++ repeat (rfc_name family addr) k.
Proof.
  intros Hok. induction lookups as [|l rest IH]; intros answers queried0 q st hv Hrun.
  - cbn in Hrun. injection Hrun as <- _ _. exists 0%nat. rewrite app_nil_r. reflexivity.
  - destruct l; cbn [ghba_lookup] in Hrun.
    + rewrite (addr_to_ptr_rfc family addr Hok) in Hrun. cbn [bind] in Hrun.
      assert (H1 : forall x, x = queried0 ++ [rfc_name family addr] -> exists k, x = queried0 ++ repeat (rfc_name family addr) k)
        by (intros x ->; exists 1%nat; reflexivity).
      destruct answers as [|[rec|e] answers']; [discriminate| |].
      * destruct (parse_ptr_reply_dnsrec rec (Some addr) (Z.of_nat (length addr)) family) as [r| |]; cbn [bind] in Hrun; try discriminate.
        destruct (snd r) as [| |h]; [injection Hrun as <- _ _; apply H1; reflexivity | injection Hrun as <- _ _; apply H1; reflexivity|].
        destruct (view_host h); cbn [bind] in Hrun; try discriminate. injection Hrun as <- _ _. apply H1; reflexivity.
      * destruct ((e =? ARES_EDESTRUCTION) || (e =? ARES_ECANCELLED)); [injection Hrun as <- _ _; apply H1; reflexivity|].
        destruct (IH _ _ _ _ _ Hrun) as [k Hk]. exists (S k). rewrite Hk, <- app_assoc. reflexivity.
    + destruct (hosts_search_ip hf (family, addr)) as [e|]; [|exact (IH _ _ _ _ _ Hrun)].
      destruct (entry_to_hostent e family) as [r| |]; cbn [bind] in Hrun; try discriminate.
      destruct (fst r =? ARES_SUCCESS); [injection Hrun as <- _ _; exists 0%nat; rewrite app_nil_r; reflexivity|].
      exact (IH _ _ _ _ _ Hrun).
Qed.

(* ... and an accepted answer yields the pointed-to names, in answer order *)
Theorem ghba_names hf family addr rest rec more q qs : addr_ok family addr -> r_questions rec = q :: qs ->
  exists st hv, gethostbyaddr hf (LB :: rest) family addr (QOk rec :: more) = Ok ([rfc_name family addr], st, hv) /\
    (st, match hv with Some v => VHost v | None => VNull end) =
    spec_ptr rec (Some addr) (Z.of_nat (length addr)) family.
Proof.
  intros Hok Hq. unfold gethostbyaddr.
  assert (Hv : negb ((family =? LEG_AF_INET) || (family =? LEG_AF_INET6)) = false)
    by (destruct Hok as [_ [[-> _] | [-> _]]]; reflexivity).
  rewrite Hv. cbn [ghba_lookup]. rewrite (addr_to_ptr_rfc family addr Hok). cbn [bind app].
  pose proof (parse_ptr_dnsrec_spec rec q qs (Some addr) (Z.of_nat (length addr)) family Hq) as H.
  unfold observe_hostres in H.
  destruct (parse_ptr_reply_dnsrec rec (Some addr) (Z.of_nat (length addr)) family) as [[s ho]| |]; cbn [bind] in H |- *; try discriminate.
  cbn [fst snd] in *. destruct ho as [| |h]; cbn [observe_host bind] in H.
  - exfalso. injection H as H. unfold spec_ptr in H.
    destruct (Legacy_spec.filter_map proj_ptr (r_answers rec)); discriminate H.
  - injection H as <-. eexists _, _. split; reflexivity.
  - destruct (view_host h) as [v| |]; cbn [bind] in H |- *; try discriminate.
    injection H as <-. eexists _, _. split; reflexivity.
Qed.

(* the hypotheses are inhabited: first candidate NXDOMAIN twice, second candidate answers the
   AAAA question first (with a stray A record in it) and then the A question *)
Definition ex_q (t : Z) : list question := [mkQ [104] t ARES_CLASS_IN].
Definition ex_rounds : list round :=
  [mkRound [QErr ARES_ENOTFOUND; QErr ARES_ENOTFOUND] false;
   mkRound [QOk (mkRec 0 (ex_q ARES_REC_TYPE_AAAA)
                        [mkRR [104] ARES_CLASS_IN 70 (RD_AAAA (repeat 0 15 ++ [1]));
                         mkRR [104] ARES_CLASS_IN 50 (RD_A [9; 9; 9; 9])]);
            QOk (mkRec 0 (ex_q ARES_REC_TYPE_A) [mkRR [104] ARES_CLASS_IN 100 (RD_A [1; 2; 3; 4])])] false].

Example ex_getaddrinfo :
  getaddrinfo hf_empty [LF; LB] [104] LEG_AF_UNSPEC (Some 80) AI_NOSORT None None ARES_SUCCESS ex_rounds =
  Ok (ARES_SUCCESS,
      Some (mkAI (Some [104])
                 [mkNode LEG_AF_INET6 (repeat 0 15 ++ [1]) 80 70; mkNode LEG_AF_INET [9; 9; 9; 9] 80 50;
                  mkNode LEG_AF_INET [1; 2; 3; 4] 80 100] [])).
Proof. vm_compute. reflexivity. Qed.

Example ex_rounds_wf : Forall (round_wf LEG_AF_UNSPEC) ex_rounds.
Proof. repeat constructor; discriminate. Qed.

(* ------------------------------------------------------------------------------------ *)
(* hosts file: completeness of the merge                                                 *)
(* ------------------------------------------------------------------------------------ *)
Lemma lower_eqb_refl c : (lower c =? lower c) = true. Proof. apply Z.eqb_refl. Qed.
Lemma strcaseeq_refl s : strcaseeq s s = true.
Proof. induction s as [|c s IH]; [reflexivity|]. cbn. rewrite Z.eqb_refl, IH. reflexivity. Qed.

Lemma bin_eqb_eq a : forall b, bin_eqb a b = true <-> a = b.
Proof.
  induction a as [|x a IH]; intros [|y b]; cbn; split; try discriminate; try reflexivity.
  - intros H. apply andb_prop in H. destruct H as [H1 H2]. apply Z.eqb_eq in H1. apply IH in H2. congruence.
  - intros [= -> ->]. rewrite Z.eqb_refl. apply IH. reflexivity.
Qed.
Lemma ipkey_eqb_eq a b : ipkey_eqb a b = true <-> a = b.
Proof.
  destruct a as [f1 a1], b as [f2 a2]. unfold ipkey_eqb. cbn [fst snd]. split.
  - intros H. apply andb_prop in H. destruct H as [H1 H2]. apply Z.eqb_eq in H1. apply bin_eqb_eq in H2. congruence.
  - intros [= -> ->]. rewrite Z.eqb_refl. apply bin_eqb_eq. reflexivity.
Qed.

Lemma host_get_app h t k v : host_get h k = Some v -> host_get (h ++ t) k = Some v.
Proof. induction h as [|[k' v'] h IH]; cbn; [discriminate|]. destruct (strcaseeq k' k); auto. Qed.
Lemma host_get_app_none h t k : host_get h k = None -> host_get (h ++ t) k = host_get t k.
Proof. induction h as [|[k' v'] h IH]; cbn; [reflexivity|]. destruct (strcaseeq k' k); [discriminate | auto]. Qed.
Lemma ip_get_app h t k v : ip_get h k = Some v -> ip_get (h ++ t) k = Some v.
Proof. induction h as [|[k' v'] h IH]; cbn; [discriminate|]. destruct (ipkey_eqb k' k); auto. Qed.
Lemma ip_get_app_none h t k : ip_get h k = None -> ip_get (h ++ t) k = ip_get t k.
Proof. induction h as [|[k' v'] h IH]; cbn; [reflexivity|]. destruct (ipkey_eqb k' k); [discriminate | auto]. Qed.

Lemma hosthash_add_stable names i : forall h k v, host_get h k = Some v -> host_get (hosthash_add h names i) k = Some v.
Proof.
  induction names as [|x t IH]; intros h k v H; cbn [hosthash_add]; [exact H|].
  apply IH. destruct (host_get h x); [exact H | apply host_get_app; exact H].
Qed.

(* a key found after the additions was there before, or maps to the entry the line joined *)
Lemma hosthash_add_cases names i : forall h k v, host_get (hosthash_add h names i) k = Some v ->
  host_get h k = Some v \/ (v = i /\ exists y, In y names /\ strcaseeq y k = true).
Proof.
  induction names as [|x t IH]; intros h k v H; cbn [hosthash_add] in H; [left; exact H|].
  apply IH in H. destruct H as [H | (-> & y & Hy & Hc)]; [|right; split; [reflexivity|]; exists y; split; [right; exact Hy | exact Hc]].
  destruct (host_get h x) eqn:Ex; [left; exact H|].
  destruct (host_get h k) as [w|] eqn:Ek.
  - left. rewrite (host_get_app h [(x, i)] k w Ek) in H. exact H.
  - rewrite (host_get_app_none h _ k Ek) in H. cbn in H. destruct (strcaseeq x k) eqn:Ec; [|discriminate].
    injection H as <-. right. split; [reflexivity|]. exists x. split; [left; reflexivity | exact Ec].
Qed.

Lemma hosthash_add_in names i : forall h x, In x names -> exists j, host_get (hosthash_add h names i) x = Some j.
Proof.
  induction names as [|y t IH]; intros h x Hin; [destruct Hin|]. cbn [hosthash_add].
  destruct Hin as [-> | Hin]; [|apply IH; exact Hin].
  destruct (host_get h x) as [j|] eqn:E.
  - exists j. apply hosthash_add_stable. exact E.
  - exists i. apply hosthash_add_stable. rewrite (host_get_app_none h _ x E). cbn. rewrite strcaseeq_refl. reflexivity.
Qed.

Lemma update_entry_length es i f : length (update_entry es i f) = length es.
Proof.
  unfold update_entry. destruct (nth_error es i) as [e|] eqn:E; [|reflexivity].
  assert (Hi : (i < length es)%nat) by (apply nth_error_Some; congruence).
  rewrite app_length, firstn_length. cbn [length]. rewrite skipn_length. lia.
Qed.
Lemma update_entry_same es i f e : nth_error es i = Some e -> nth_error (update_entry es i f) i = Some (f e).
Proof.
  intros E. unfold update_entry. rewrite E.
  assert (Hi : (i < length es)%nat) by (apply nth_error_Some; congruence).
  rewrite nth_error_app2 by (rewrite firstn_length; lia). rewrite firstn_length.
  replace (i - Nat.min i (length es))%nat with 0%nat by lia. reflexivity.
Qed.
Lemma update_entry_other es i f j : j <> i -> nth_error (update_entry es i f) j = nth_error es j.
Proof.
  intros Hne. unfold update_entry. destruct (nth_error es i) as [e|] eqn:E; [|reflexivity].
  assert (Hi : (i < length es)%nat) by (apply nth_error_Some; congruence).
  destruct (Nat.lt_ge_cases j i) as [Hl|Hg].
  - rewrite nth_error_app1 by (rewrite firstn_length; lia). apply nth_error_firstn_lt'. exact Hl.
  - rewrite nth_error_app2 by (rewrite firstn_length; lia). rewrite firstn_length.
    replace (Nat.min i (length es)) with i by lia.
    destruct (j - i)%nat as [|d] eqn:Ed; [lia|]. cbn [nth_error]. rewrite nth_error_skipn'. f_equal. lia.
Qed.

(* invariant of the parsed file: hash values are entry indices, every hashed address is in its
   entry, every hashed name is a name of a line read so far *)
Definition hf_inv (lines : list hline) (hf : hfile) : Prop :=
  (forall k i, host_get (hf_hosthash hf) k = Some i -> (i < length (hf_entries hf))%nat) /\
  (forall ip i, ip_get (hf_iphash hf) ip = Some i -> exists e, nth_error (hf_entries hf) i = Some e /\ In ip (he_ips e)) /\
  (forall k i, host_get (hf_hosthash hf) k = Some i -> exists l y, In l lines /\ In y (hl_hosts l) /\ strcaseeq y k = true).


Lemma first_host_match_some h hosts i : first_host_match h hosts = Some i -> exists y, In y hosts /\ host_get h y = Some i.
Proof.
  induction hosts as [|x t IH]; cbn; [discriminate|]. destruct (host_get h x) as [j|] eqn:E.
  - intros [= <-]. exists x. split; [left; reflexivity | exact E].
  - intros H. destruct (IH H) as (y & Hy & Ey). exists y. split; [right; exact Hy | exact Ey].
Qed.

Lemma ip_get_found h k i : ip_get h k = Some i -> In (k, i) h.
Proof.
  induction h as [|[k' v] h IH]; cbn; [discriminate|]. destruct (ipkey_eqb k' k) eqn:E.
  - intros [= <-]. apply ipkey_eqb_eq in E. subst. left; reflexivity.
  - intros H. right. exact (IH H).
Qed.

Lemma fresh_in (h : list (str * nat)) hosts x : In x hosts -> host_get h x = None ->
  In x (filter (fun y => match host_get h y with Some _ => false | None => true end) hosts).
Proof. intros Hin E. apply filter_In. split; [exact Hin | rewrite E; reflexivity]. Qed.

Lemma fresh_incl (h : list (str * nat)) hosts y :
  In y (filter (fun y => match host_get h y with Some _ => false | None => true end) hosts) -> In y hosts.
Proof. intros H. apply filter_In in H. apply H. Qed.

Lemma added_maps_to h names i x : In x names -> host_get h x = None -> host_get (hosthash_add h names i) x = Some i.
Proof.
  intros Hin E. destruct (hosthash_add_in names i h x Hin) as [j Hj].
  destruct (hosthash_add_cases names i h x j Hj) as [H | [-> _]]; [congruence | exact Hj].
Qed.

Lemma hosts_add_step lines hf l : hf_inv lines hf ->
  hf_inv (lines ++ [l]) (hosts_add hf l) /\
  (forall k i, host_get (hf_hosthash hf) k = Some i -> host_get (hf_hosthash (hosts_add hf l)) k = Some i) /\
  (forall ip i, ip_get (hf_iphash hf) ip = Some i -> ip_get (hf_iphash (hosts_add hf l)) ip = Some i) /\
  (forall i e, nth_error (hf_entries hf) i = Some e ->
     exists e', nth_error (hf_entries (hosts_add hf l)) i = Some e' /\ incl (he_ips e) (he_ips e')) /\
  (exists i e', ip_get (hf_iphash (hosts_add hf l)) (hl_ip l) = Some i /\
     nth_error (hf_entries (hosts_add hf l)) i = Some e' /\ In (hl_ip l) (he_ips e') /\
     forall x, In x (hl_hosts l) -> host_get (hf_hosthash hf) x = None ->
               host_get (hf_hosthash (hosts_add hf l)) x = Some i).
Proof.
  intros (I1 & I2 & I3). unfold hosts_add.
  set (fresh := filter (fun x => match host_get (hf_hosthash hf) x with Some _ => false | None => true end) (hl_hosts l)).
  assert (I3' : forall names i k j, (forall y, In y names -> In y (hl_hosts l)) ->
            host_get (hosthash_add (hf_hosthash hf) names i) k = Some j ->
            exists l0 y, In l0 (lines ++ [l]) /\ In y (hl_hosts l0) /\ strcaseeq y k = true).
  { intros names i k j Hsub H. destruct (hosthash_add_cases names i _ k j H) as [H0 | (_ & y & Hy & Hc)].
    - destruct (I3 k j H0) as (l0 & y & Hl0 & Hy & Hc). exists l0, y. split; [apply in_or_app; left; exact Hl0 | auto].
    - exists l, y. split; [apply in_or_app; right; left; reflexivity | split; [apply Hsub; exact Hy | exact Hc]]. }
  unfold hosts_match.
  destruct (ip_get (hf_iphash hf) (hl_ip l)) as [i|] eqn:Eip.
  - (* the address is known: the names join its entry *)
    destruct (I2 _ _ Eip) as (e & Ee & Hin).
    assert (Hi : (i < length (hf_entries hf))%nat) by (apply nth_error_Some; congruence).
    cbv beta iota. unfold hf_inv. cbn [hf_entries hf_iphash hf_hosthash].
    split; [split; [|split]|split; [|split; [|split]]].
    + intros k j H. rewrite update_entry_length. destruct (hosthash_add_cases fresh i _ k j H) as [H0 | [-> _]]; [exact (I1 k j H0) | exact Hi].
    + intros ip j H. destruct (I2 ip j H) as (e0 & E0 & Hin0). destruct (Nat.eq_dec j i) as [->|Hne].
      * rewrite (update_entry_same _ _ _ e Ee). eexists. split; [reflexivity|]. cbn [he_ips]. congruence.
      * rewrite (update_entry_other _ _ _ _ Hne). eauto.
    + intros k j H. apply (I3' fresh i k j); [apply fresh_incl | exact H].
    + intros k j H. apply hosthash_add_stable. exact H.
    + auto.
    + intros j e0 E0. destruct (Nat.eq_dec j i) as [->|Hne].
      * rewrite (update_entry_same _ _ _ e Ee). eexists. split; [reflexivity|]. cbn [he_ips]. rewrite Ee in E0. injection E0 as <-. apply incl_refl.
      * rewrite (update_entry_other _ _ _ _ Hne). exists e0. split; [exact E0 | apply incl_refl].
    + exists i. eexists. split; [exact Eip|]. split; [apply (update_entry_same _ _ _ e Ee)|]. cbn [he_ips]. split; [exact Hin|].
      intros x Hx Ex. apply added_maps_to; [apply fresh_in; assumption | exact Ex].
  - destruct (first_host_match (hf_hosthash hf) (hl_hosts l)) as [i|] eqn:Eh.
    + (* a name of the line is known: the address joins that entry *)
      destruct (first_host_match_some _ _ _ Eh) as (y0 & Hy0 & Ey0).
      assert (Hi : (i < length (hf_entries hf))%nat) by exact (I1 _ _ Ey0).
      destruct (nth_error (hf_entries hf) i) as [e|] eqn:Ee; [|apply nth_error_None in Ee; lia].
      cbv beta iota. unfold hf_inv. cbn [hf_entries hf_iphash hf_hosthash].
      split; [split; [|split]|split; [|split; [|split]]].
      * intros k j H. rewrite update_entry_length. destruct (hosthash_add_cases fresh i _ k j H) as [H0 | [-> _]]; [exact (I1 k j H0) | exact Hi].
      * intros ip j H. destruct (ip_get (hf_iphash hf) ip) as [j0|] eqn:E0.
        -- rewrite (ip_get_app _ _ _ _ E0) in H. injection H as <-. destruct (I2 ip j0 E0) as (e0 & Ee0 & Hin0).
           destruct (Nat.eq_dec j0 i) as [->|Hne].
           ++ rewrite (update_entry_same _ _ _ e Ee). eexists. split; [reflexivity|]. cbn [he_ips]. apply in_or_app. left. congruence.
           ++ rewrite (update_entry_other _ _ _ _ Hne). eauto.
        -- rewrite (ip_get_app_none _ _ _ E0) in H. cbn in H. destruct (ipkey_eqb (hl_ip l) ip) eqn:Ek; [|discriminate].
           injection H as <-. apply ipkey_eqb_eq in Ek. subst ip.
           rewrite (update_entry_same _ _ _ e Ee). eexists. split; [reflexivity|]. cbn [he_ips]. apply in_or_app. right. left. reflexivity.
      * intros k j H. apply (I3' fresh i k j); [apply fresh_incl | exact H].
      * intros k j H. apply hosthash_add_stable. exact H.
      * intros ip j H. apply ip_get_app. exact H.
      * intros j e0 E0. destruct (Nat.eq_dec j i) as [->|Hne].
        -- rewrite (update_entry_same _ _ _ e Ee). eexists. split; [reflexivity|]. cbn [he_ips]. rewrite Ee in E0. injection E0 as <-. apply incl_appl, incl_refl.
        -- rewrite (update_entry_other _ _ _ _ Hne). exists e0. split; [exact E0 | apply incl_refl].
      * exists i. eexists. split; [|split; [apply (update_entry_same _ _ _ e Ee)|]].
        -- rewrite (ip_get_app_none _ _ _ Eip). cbn. rewrite (proj2 (ipkey_eqb_eq _ _) eq_refl). reflexivity.
        -- cbn [he_ips]. split; [apply in_or_app; right; left; reflexivity|].
           intros x Hx Ex. apply added_maps_to; [apply fresh_in; assumption | exact Ex].
    + (* nothing known: a new entry *)
      cbv beta iota. unfold hf_inv. cbn [hf_entries hf_iphash hf_hosthash].
      set (i := length (hf_entries hf)).
      assert (Hnew : nth_error (hf_entries hf ++ [mkHEntry [hl_ip l] (hl_hosts l)]) i = Some (mkHEntry [hl_ip l] (hl_hosts l))).
      { unfold i. rewrite nth_error_app2 by lia. rewrite Nat.sub_diag. reflexivity. }
      assert (Hold : forall j e0, nth_error (hf_entries hf) j = Some e0 -> nth_error (hf_entries hf ++ [mkHEntry [hl_ip l] (hl_hosts l)]) j = Some e0).
      { intros j e0 E0. rewrite nth_error_app1; [exact E0 | apply nth_error_Some; congruence]. }
      split; [split; [|split]|split; [|split; [|split]]].
      * intros k j H. rewrite app_length. cbn [length]. destruct (hosthash_add_cases (hl_hosts l) i _ k j H) as [H0 | [-> _]]; [specialize (I1 k j H0); lia | unfold i; lia].
      * intros ip j H. destruct (ip_get (hf_iphash hf) ip) as [j0|] eqn:E0.
        -- rewrite (ip_get_app _ _ _ _ E0) in H. injection H as <-. destruct (I2 ip j0 E0) as (e0 & Ee0 & Hin0). exists e0. split; [apply Hold; exact Ee0 | exact Hin0].
        -- rewrite (ip_get_app_none _ _ _ E0) in H. cbn in H. destruct (ipkey_eqb (hl_ip l) ip) eqn:Ek; [|discriminate].
           injection H as <-. apply ipkey_eqb_eq in Ek. subst ip. eexists. split; [exact Hnew | left; reflexivity].
      * intros k j H. apply (I3' (hl_hosts l) i k j); [auto | exact H].
      * intros k j H. apply hosthash_add_stable. exact H.
      * intros ip j H. apply ip_get_app. exact H.
      * intros j e0 E0. exists e0. split; [apply Hold; exact E0 | apply incl_refl].
      * exists i. eexists. split; [|split; [exact Hnew|]].
        -- rewrite (ip_get_app_none _ _ _ Eip). cbn. rewrite (proj2 (ipkey_eqb_eq _ _) eq_refl). reflexivity.
        -- cbn [he_ips]. split; [left; reflexivity|]. intros x Hx Ex. apply added_maps_to; assumption.
Qed.

Definition hf_le (a b : hfile) : Prop :=
  (forall k i, host_get (hf_hosthash a) k = Some i -> host_get (hf_hosthash b) k = Some i) /\
  (forall ip i, ip_get (hf_iphash a) ip = Some i -> ip_get (hf_iphash b) ip = Some i) /\
  (forall i e, nth_error (hf_entries a) i = Some e -> exists e', nth_error (hf_entries b) i = Some e' /\ incl (he_ips e) (he_ips e')).

Lemma hf_le_refl a : hf_le a a.
Proof. split; [auto|]. split; [auto|]. intros i e E. exists e. split; [exact E | apply incl_refl]. Qed.
Lemma hf_le_trans a b c : hf_le a b -> hf_le b c -> hf_le a c.
Proof.
  intros (A1 & A2 & A3) (B1 & B2 & B3). split; [auto|]. split; [auto|].
  intros i e E. destruct (A3 i e E) as (e1 & E1 & H1). destruct (B3 i e1 E1) as (e2 & E2 & H2).
  exists e2. split; [exact E2 | eapply incl_tran; eassumption].
Qed.

Lemma hosts_fold_grow ls : forall pre hf, hf_inv pre hf ->
  hf_inv (pre ++ ls) (fold_left hosts_add ls hf) /\ hf_le hf (fold_left hosts_add ls hf).
Proof.
  induction ls as [|l ls IH]; intros pre hf Hinv; cbn [fold_left].
  - rewrite app_nil_r. split; [exact Hinv | apply hf_le_refl].
  - destruct (hosts_add_step pre hf l Hinv) as (Hinv1 & S1 & S2 & S3 & _).
    destruct (IH (pre ++ [l]) (hosts_add hf l) Hinv1) as (Hinv2 & Hle).
    rewrite <- app_assoc in Hinv2. split; [exact Hinv2|].
    eapply hf_le_trans; [|exact Hle]. split; [exact S1|]. split; [exact S2 | exact S3].
Qed.

Lemma hf_inv_empty : hf_inv [] hf_empty.
Proof. split; [|split]; cbn; intros; discriminate. Qed.

(* completeness 1: the FIRST line that mentions a name contributes its address to the entry the
   name resolves to (later lines may add more, nothing is ever removed) *)
Theorem hosts_first_mention pre l post x :
  In x (hl_hosts l) ->
  (forall l' y, In l' pre -> In y (hl_hosts l') -> strcaseeq y x = false) ->
  exists e, hosts_search_host (hosts_build (pre ++ l :: post)) x = Some e /\ In (hl_ip l) (he_ips e).
Proof.
  intros Hx Hfirst. unfold hosts_build. rewrite fold_left_app. cbn [fold_left].
  destruct (hosts_fold_grow pre [] hf_empty hf_inv_empty) as (Hinv1 & _). cbn [app] in Hinv1.
  set (hf1 := fold_left hosts_add pre hf_empty) in *.
  assert (Hnone : host_get (hf_hosthash hf1) x = None).
  { destruct (host_get (hf_hosthash hf1) x) as [i|] eqn:E; [|reflexivity].
    destruct Hinv1 as (_ & _ & I3). destruct (I3 x i E) as (l' & y & Hl' & Hy & Hc).
    rewrite (Hfirst l' y Hl' Hy) in Hc. discriminate. }
  destruct (hosts_add_step pre hf1 l Hinv1) as (Hinv2 & _ & _ & _ & (i & e' & _ & Ee & Hin & Hmap)).
  specialize (Hmap x Hx Hnone).
  destruct (hosts_fold_grow post (pre ++ [l]) (hosts_add hf1 l) Hinv2) as (_ & (L1 & _ & L3)).
  destruct (L3 i e' Ee) as (e'' & Ee'' & Hincl).
  exists e''. unfold hosts_search_host. rewrite (L1 x i Hmap). split; [exact Ee'' | apply Hincl; exact Hin].
Qed.

(* completeness 2: no line is dropped - the address of every line is found by the reverse
   lookup, in an entry that contains it *)
Theorem hosts_every_line pre l post :
  exists e, hosts_search_ip (hosts_build (pre ++ l :: post)) (hl_ip l) = Some e /\ In (hl_ip l) (he_ips e).
Proof.
  unfold hosts_build. rewrite fold_left_app. cbn [fold_left].
  destruct (hosts_fold_grow pre [] hf_empty hf_inv_empty) as (Hinv1 & _). cbn [app] in Hinv1.
  set (hf1 := fold_left hosts_add pre hf_empty) in *.
  destruct (hosts_add_step pre hf1 l Hinv1) as (Hinv2 & _ & _ & _ & (i & e' & Eip & Ee & Hin & _)).
  destruct (hosts_fold_grow post (pre ++ [l]) (hosts_add hf1 l) Hinv2) as (_ & (_ & L2 & L3)).
  destruct (L3 i e' Ee) as (e'' & Ee'' & Hincl).
  exists e''. unfold hosts_search_ip. rewrite (L2 _ i Eip). split; [exact Ee'' | apply Hincl; exact Hin].
Qed.

(* hence the forward lookup of a name delivers the address of the first line that mentions it,
   whenever the family asks for it *)
Theorem hosts_first_mention_node pre l post x family port :
  In x (hl_hosts l) ->
  (forall l' y, In l' pre -> In y (hl_hosts l') -> strcaseeq y x = false) ->
  (family = LEG_AF_UNSPEC \/ family = fst (hl_ip l)) ->
  In (mkNode (fst (hl_ip l)) (snd (hl_ip l)) port 0) (spec_hosts_nodes (hosts_build (pre ++ l :: post)) x family port).
Proof.
  intros Hx Hfirst Hfam. destruct (hosts_first_mention pre l post x Hx Hfirst) as (e & Ee & Hin).
  unfold spec_hosts_nodes. rewrite Ee. apply in_map_iff. exists (hl_ip l). split; [reflexivity|].
  apply filter_In. split; [exact Hin|]. destruct Hfam as [-> | ->]; [reflexivity | rewrite Z.eqb_refl; apply orb_true_r].
Qed.

(* ------------------------------------------------------------------------------------ *)
(* which names are IPv4 literals: the concrete parser                                    *)
(* ------------------------------------------------------------------------------------ *)
Lemma pton4_loop_sound s : forall tmp in_octet acc l,
  0 <= tmp <= 255 -> Forall is_byte acc ->
  pton4_loop s tmp in_octet acc = Some l -> Forall is_byte l /\ (length l <= 4)%nat.
Proof.
  induction s as [|c rest IH]; intros tmp io acc l Ht Hacc; cbn [pton4_loop].
  - destruct io; [|discriminate]. destruct (Nat.ltb_spec (length acc) 4); [|discriminate].
    intros [= <-]. split; [apply Forall_app; split; [exact Hacc | constructor; [unfold is_byte; lia | constructor]]|].
    rewrite app_length. cbn. lia.
  - destruct ((48 <=? c) && (c <=? 57)) eqn:Ed.
    + apply andb_prop in Ed. destruct Ed as [E1 E2]. apply Z.leb_le in E1. apply Z.leb_le in E2.
      destruct (Z.gtb_spec (tmp * 10 + (c - 48)) 255); [discriminate|]. apply IH; [lia | exact Hacc].
    + destruct (c =? 46); [|discriminate]. destruct io; [|discriminate].
      destruct (Nat.ltb_spec (length acc) 4); [|discriminate].
      apply IH; [lia|]. apply Forall_app. split; [exact Hacc | constructor; [unfold is_byte; lia | constructor]].
Qed.

(* a literal is four octets, each 0..255 *)
Theorem inet_pton4_sound name a : inet_pton4 name = Some a -> length a = 4%nat /\ Forall is_byte a.
Proof.
  unfold inet_pton4. destruct (pton4_loop name 0 false []) as [l|] eqn:E; [|discriminate]. intros [= <-].
  destruct (pton4_loop_sound name 0 false [] l ltac:(lia) (Forall_nil _) E) as [Hb Hl].
  split; [rewrite app_length, repeat_length; destruct (length l) as [|[|[|[|[|n]]]]]; cbn; lia|].
  apply Forall_app. split; [exact Hb|]. apply Forall_forall. intros x Hx. apply repeat_spec in Hx. subst. unfold is_byte. lia.
Qed.

(* the decimal spelling of an octet is read back as that octet *)
Lemma pton4_octet b : is_byte b -> forall rest acc,
  pton4_loop (dec_digits b ++ rest) 0 false acc = pton4_loop rest b true acc.
Proof.
  intros Hb. unfold is_byte in Hb.
  assert (H : forall n, (n < 256)%nat -> forall rest acc,
             pton4_loop (dec_digits (Z.of_nat n) ++ rest) 0 false acc = pton4_loop rest (Z.of_nat n) true acc).
  { intros n Hn. do 256 (destruct n as [|n]; [intros; reflexivity|]). lia. }
  rewrite <- (Z2Nat.id b) by lia. apply H. lia.
Qed.

Theorem inet_pton4_dotted_quad a b c d : is_byte a -> is_byte b -> is_byte c -> is_byte d ->
  inet_pton4 (dec_digits a ++ [46] ++ dec_digits b ++ [46] ++ dec_digits c ++ [46] ++ dec_digits d) = Some [a; b; c; d].
Proof.
  intros Ha Hb Hc Hd. unfold inet_pton4.
  rewrite (pton4_octet a Ha). cbn [app pton4_loop]. change ((48 <=? 46) && (46 <=? 57)) with false. cbn [Z.eqb length Nat.ltb Nat.leb app].
  change (46 =? 46) with true. cbv iota.
  rewrite (pton4_octet b Hb). cbn [app pton4_loop]. change ((48 <=? 46) && (46 <=? 57)) with false. change (46 =? 46) with true. cbn [length Nat.ltb Nat.leb app]. cbv iota.
  rewrite (pton4_octet c Hc). cbn [app pton4_loop]. change ((48 <=? 46) && (46 <=? 57)) with false. change (46 =? 46) with true. cbn [length Nat.ltb Nat.leb app]. cbv iota.
  replace (dec_digits d) with (dec_digits d ++ []) by apply app_nil_r.
  rewrite (pton4_octet d Hd). reflexivity.
Qed.

(* names that only look like literals are not literals; odd spellings of literals are *)
Example near_literals_rejected :
  map inet_pton4 [[49;48;46;50;48;46;51;48;46;52;48;48];   (* 10.20.30.400 *)
                  [57;57;57;46;49;46;49;46;49];             (* 999.1.1.1 *)
                  [49;46;50;46;51;46];                      (* 1.2.3. *)
                  [49;46;46;50;46;51];                      (* 1..2.3 *)
                  [46;49;46;50;46;51];                      (* .1.2.3 *)
                  [49;46;50;46;51;46;52;46;53]]             (* 1.2.3.4.5 *)
  = [None; None; None; None; None; None].
Proof. vm_compute. reflexivity. Qed.
Example leading_zeros_accepted :
  inet_pton4 [48;49;48;46;48;48;49;46;48;48;50;46;48;48;51] = Some [10; 1; 2; 3].   (* 010.001.002.003 *)
Proof. vm_compute. reflexivity. Qed.

(* the literal path of ares_getaddrinfo with the concrete parser: the node is the parsed address *)
Theorem literal_node_concrete name family port flags p6 ai a :
  fake_addrinfo name family port flags (inet_pton4 name) p6 = FAddr ai ->
  ai_nodes ai = [mkNode LEG_AF_INET a port 0] ->
  inet_pton4 name = Some a /\ length a = 4%nat /\ Forall is_byte a /\ family <> LEG_AF_INET6.
Proof.
  intros Hf Hn. destruct (literal_node name family port flags (inet_pton4 name) p6 ai Hf) as (a' & [(Hn' & Hp & Hfam) | (Hn' & _)]).
  - rewrite Hn in Hn'. injection Hn' as ->. split; [exact Hp|]. destruct (inet_pton4_sound name a' Hp). auto.
  - rewrite Hn in Hn'. discriminate Hn'.
Qed.
