(* Declarative specification of the legacy reply parsers (property C18): what each parser has
   to return, stated as filter/map projections of the answer section of the record - no
   loops, no accumulators, no arrays.  Legacy_proofs.v proves that the code-shaped models of
   Legacy.v compute exactly these projections for every record; the model driver evaluates
   these functions as the property's oracle on the implementation's output.

   No-data convention (what the code base documents and its own test-suite pins down):
     ns, ptr          : ARES_ENODATA when there is no record of the type
     a, aaaa          : ARES_ENODATA when there is neither an address of the family nor an
                        alias (CNAME); with only aliases the call succeeds with an empty
                        address list (upstream commit 2c63440); without a hostent argument the
                        status reflects addresses of either family or aliases
     mx, srv, naptr, caa, uri, txt : ARES_ENODATA when the answer section is empty, otherwise
                        ARES_SUCCESS with an empty (NULL) list
     soa              : ARES_EBADRESP (recorded as finding: collides with the malformed status) *)
From CAres.Legacy Require Export Legacy.
From CAres.Gen Require Import Consts.
Local Open Scope Z_scope.

Fixpoint filter_map {A B} (f : A -> option B) (l : list A) : list B :=
  match l with
  | [] => []
  | x :: t => match f x with Some y => y :: filter_map f t | None => filter_map f t end
  end.

(* ---------------- observations: what the caller can read from a result ---------------- *)
Inductive hview := VUntouched | VNull | VHost (v : host_view).

Definition observe_host (h : host_out) : outcome hview :=
  match h with
  | HUntouched => Ok VUntouched
  | HNull => Ok VNull
  | HSome h => do v <- view_host h; Ok (VHost v)
  end.

Record addr_obs := mkAO {
  ao_status : Z; ao_host : hview; ao_naddr : option Z; ao_written : list (bin * Z) }.

Definition observe_addr (r : outcome addr_result) : outcome addr_obs :=
  do x <- r;
  do v <- observe_host (ar_host x);
  Ok (mkAO (ar_status x) v (ar_naddr x) (ar_written x)).

Definition observe_hostres (r : outcome (Z * host_out)) : outcome (Z * hview) :=
  do x <- r; do v <- observe_host (snd x); Ok (fst x, v).

(* ---------------- per-type projections of one answer record ---------------- *)
Definition proj_addr (family : Z) (r : rr) : option (bin * Z) :=
  if is_in r then
    match rr_data r with
    | RD_A a => if family =? LEG_AF_INET then Some (a, ttl_to_int (rr_ttl r)) else None
    | RD_AAAA a => if family =? LEG_AF_INET6 then Some (a, ttl_to_int (rr_ttl r)) else None
    | _ => None
    end
  else None.

(* (owner, target, ttl) of an IN CNAME *)
Definition proj_cname (r : rr) : option (str * str * Z) :=
  if is_in r then match rr_data r with RD_CNAME t => Some (rr_name r, t, ttl_to_int (rr_ttl r)) | _ => None end
  else None.

Definition is_any_addr (r : rr) : bool :=
  is_in r && match rr_data r with RD_A _ | RD_AAAA _ => true | _ => false end.

Definition proj_ns (r : rr) : option str :=
  if is_in r then match rr_data r with RD_NS n => Some n | _ => None end else None.
Definition proj_ptr (r : rr) : option str :=
  if is_in r then match rr_data r with RD_PTR n => Some n | _ => None end else None.
Definition proj_mx (r : rr) : option mx_reply :=
  if is_in r then match rr_data r with RD_MX p e => Some (mkMx p e) | _ => None end else None.
Definition proj_srv (r : rr) : option srv_reply :=
  if is_in r then match rr_data r with RD_SRV p w po t => Some (mkSrv p w po t) | _ => None end else None.
Definition proj_naptr (r : rr) : option naptr_reply :=
  if is_in r then match rr_data r with RD_NAPTR o p f s re rp => Some (mkNaptr o p f s re rp) | _ => None end
  else None.
Definition proj_caa (r : rr) : option caa_reply :=
  if is_in_or_chaos r then
    match rr_data r with
    | RD_CAA c tag v => Some (mkCaa c (Z.of_nat (length tag)) tag (Z.of_nat (length v)) v)
    | _ => None
    end
  else None.
Definition proj_uri (r : rr) : option uri_reply :=
  if is_in r then match rr_data r with RD_URI p w t => Some (mkUri p w (ttl_to_int (rr_ttl r)) t) | _ => None end
  else None.
Definition proj_soa (r : rr) : option soa_reply :=
  if is_in r then match rr_data r with RD_SOA m rn s rf rt e mi => Some (mkSoa m rn s rf rt e mi) | _ => None end
  else None.

(* one list element per string of a TXT record; only the first carries record_start (ext) *)
Definition txt_entries (ex : bool) (chunks : list bin) : list txt_ent :=
  match chunks with
  | [] => []
  | c :: cs => mkTxt ex (Z.of_nat (length c)) c :: map (fun c => mkTxt false (Z.of_nat (length c)) c) cs
  end.
Definition proj_txt (ex : bool) (r : rr) : list txt_ent :=
  if is_in_or_chaos r then match rr_data r with RD_TXT cs => txt_entries ex cs | _ => [] end else [].

(* ---------------- list parsers ---------------- *)
Definition nodata_list_status (rec : dnsrec) : Z :=
  match r_answers rec with [] => ARES_ENODATA | _ :: _ => ARES_SUCCESS end.

Definition spec_mx (rec : dnsrec) := (nodata_list_status rec, filter_map proj_mx (r_answers rec)).
Definition spec_srv (rec : dnsrec) := (nodata_list_status rec, filter_map proj_srv (r_answers rec)).
Definition spec_naptr (rec : dnsrec) := (nodata_list_status rec, filter_map proj_naptr (r_answers rec)).
Definition spec_caa (rec : dnsrec) := (nodata_list_status rec, filter_map proj_caa (r_answers rec)).
Definition spec_uri (rec : dnsrec) := (nodata_list_status rec, filter_map proj_uri (r_answers rec)).
Definition spec_txt (ex : bool) (rec : dnsrec) := (nodata_list_status rec, flat_map (proj_txt ex) (r_answers rec)).

Definition spec_soa (rec : dnsrec) : Z * option soa_reply :=
  match filter_map proj_soa (r_answers rec) with
  | [] => (ARES_EBADRESP, None)
  | s :: _ => (ARES_SUCCESS, Some s)
  end.

(* ---------------- hostent parsers ---------------- *)
Definition qname (rec : dnsrec) : option str :=
  match r_questions rec with q :: _ => Some (q_name q) | [] => None end.

Definition spec_ns (rec : dnsrec) : Z * hview :=
  match filter_map proj_ns (r_answers rec) with
  | [] => (ARES_ENODATA, VNull)
  | names => (ARES_SUCCESS, VHost (mkHV (qname rec) names LEG_AF_INET LEG_IN_ADDR_SIZE []))
  end.

Definition spec_ptr (rec : dnsrec) (addr : option bin) (addrlen family : Z) : Z * hview :=
  match filter_map proj_ptr (r_answers rec) with
  | [] => (ARES_ENODATA, VNull)
  | names =>
    (ARES_SUCCESS,
     VHost (mkHV (Some (last names [])) names family addrlen
                 (match addr with
                  | Some a => if addrlen >? 0 then [firstn (Z.to_nat addrlen) a] else []
                  | None => []
                  end)))
  end.

(* ---------------- a / aaaa ---------------- *)
Definition cname_min_ttl (cn : list (str * str * Z)) : Z :=
  fold_right Z.min LEG_INT_MAX (map snd cn).

Definition spec_addr_reply (family : Z) (rec : dnsrec) (want_host arr_given : bool)
           (naddrttls : option Z) : addr_obs :=
  let addrs := filter_map (proj_addr family) (r_answers rec) in
  let cn := filter_map proj_cname (r_answers rec) in
  let cmin := cname_min_ttl cn in
  let hlen := if family =? LEG_AF_INET then LEG_IN_ADDR_SIZE else LEG_IN6_ADDR_SIZE in
  let have_host := match addrs, cn with [], [] => false | _, _ => true end in
  let have_any := existsb is_any_addr (r_answers rec) || match cn with [] => false | _ => true end in
  let status := if want_host then (if have_host then ARES_SUCCESS else ARES_ENODATA)
                else (if have_any then ARES_SUCCESS else ARES_ENODATA) in
  let hv := if want_host then
              if have_host then
                VHost (mkHV (match cn with (_, t, _) :: _ => Some t | [] => qname rec end)
                            (map (fun c => fst (fst c)) cn) family hlen (map fst addrs))
              else VNull
            else VUntouched in
  let written := match naddrttls with
                 | Some n => if arr_given then firstn (Z.to_nat n) (map (fun e => (fst e, Z.min (snd e) cmin)) addrs) else []
                 | None => []
                 end in
  mkAO status hv (match naddrttls with Some _ => Some (Z.of_nat (length written)) | None => None end) written.

(* ---------------- addrinfo level (shared with C13) ---------------- *)
Definition is_nil {A} (l : list A) : bool := match l with [] => true | _ :: _ => false end.
Definition is_some {A} (o : option A) : bool := match o with Some _ => true | None => false end.

Definition cn_of (c : str * str * Z) : ai_cname :=
  mkCname (snd c) (Some (fst (fst c))) (Some (snd (fst c))).

Definition node_of (port : Z) (r : rr) : option ai_node :=
  if is_in r then
    match rr_data r with
    | RD_A a => Some (mkNode LEG_AF_INET a port (ttl_to_int (rr_ttl r)))
    | RD_AAAA a => Some (mkNode LEG_AF_INET6 a port (ttl_to_int (rr_ttl r)))
    | _ => None
    end
  else None.


Definition fam_nodes (family : Z) (nodes : list ai_node) : list ai_node :=
  filter (fun nd => n_family nd =? family) nodes.


(* what the caller reads from the hostent produced for a fresh *host *)
Definition a2h_view (ai : addrinfo) (family : Z) : Z * hview :=
  if is_nil (fam_nodes family (ai_nodes ai)) && is_nil (ai_cnames ai) then (ARES_ENODATA, VNull)
  else (ARES_SUCCESS,
        VHost (mkHV (match ai_cnames ai with c :: _ => c_name c | [] => ai_name ai end)
                    (filter_map c_alias (ai_cnames ai)) family
                    (if family =? LEG_AF_INET then LEG_IN_ADDR_SIZE else LEG_IN6_ADDR_SIZE)
                    (map n_addr (fam_nodes family (ai_nodes ai))))).


Definition ttl_entry (cttl : Z) (nd : ai_node) : bin * Z :=
  (n_addr nd, if n_ttl nd >? cttl then cttl else n_ttl nd).


(* what ares_parse_into_addrinfo has to append: one node per IN A/AAAA record, in answer
   order, with the caller's port and the record's TTL; one cname entry per IN CNAME *)
Definition spec_nodes (port : Z) (answers : list rr) : list ai_node := filter_map (node_of port) answers.
Definition spec_cnames (answers : list rr) : list ai_cname := map cn_of (filter_map proj_cname answers).

(* elements ares_addrinfo2addrttl stores for a capacity req > 0 *)
Definition spec_addrttl (ai : addrinfo) (family req : Z) : list (bin * Z) :=
  firstn (Z.to_nat req)
         (map (fun nd => (n_addr nd, Z.min (n_ttl nd) (fold_right Z.min LEG_INT_MAX (map c_ttl (ai_cnames ai)))))
              (fam_nodes family (ai_nodes ai))).

(* ---------------- malformed ---------------- *)
(* a "malformed-message error" is any status other than success and no-data *)
Definition is_malformed_status (s : Z) : bool := negb (s =? ARES_SUCCESS) && negb (s =? ARES_ENODATA).
