(* End-to-end models for property C13: ares_getaddrinfo / ares_gethostbyname /
   ares_gethostbyaddr above the query layer.

   What is modelled (in the shape of the C code, WITH fixes/C13-gai-family-restrict.patch):
     ares_getaddrinfo.c : fake_addrinfo (literals), next_lookup ('b'/'f' walk over the
                          candidate names), host_callback (merge of the A and AAAA
                          sub-queries: remaining counter, ares_parse_into_addrinfo into the
                          shared addrinfo, ai_restrict_family, the decision ladder),
                          file_lookup (+ loopback rule), end_hquery
     ares_hosts_file.c  : ares_hosts_file_add / merge_entry / match (entry list + the two
                          hash tables as association lists, case-insensitive keys),
                          ares_hosts_search_host / _ipaddr, ares_hosts_entry_to_addrinfo,
                          ares_hosts_entry_to_hostent
     ares_gethostbyname.c : ares_gethostbyname_callback (addrinfo2hostent AF_UNSPEC, the
                          ENODATA rule, sortlist sort)
     ares_gethostbyaddr.c : next_lookup / addr_callback / file_lookup
   Inputs that belong to other layers: the outcome of every sub-query (an accepted record or
   an error status: query layer, C05/C12), the list of candidate names (C12; one [round] per
   name actually queried), inet_pton results, the service -> port conversion, the text ->
   line parsing of the hosts file, qsort (content only). *)
From CAres.Legacy Require Export AddrInfo Legacy_spec.
From CAres.Gen Require Import Consts.
Local Open Scope Z_scope.

(* ------------------------------------------------------------------------------------ *)
(* hosts file                                                                            *)
(* ------------------------------------------------------------------------------------ *)
Definition ipkey := (Z * bin)%type.                      (* family, address bytes *)
Record hline := mkHLine { hl_ip : ipkey; hl_hosts : list str }.
Record hentry := mkHEntry { he_ips : list ipkey; he_hosts : list str }.
Record hfile := mkHFile {
  hf_entries  : list hentry;
  hf_iphash   : list (ipkey * nat);       (* normalised address -> entry index *)
  hf_hosthash : list (str * nat) }.       (* host name (case-insensitive) -> entry index *)
Definition hf_empty : hfile := mkHFile [] [] [].

Fixpoint bin_eqb (a b : bin) : bool :=
  match a, b with
  | [], [] => true
  | x :: a', y :: b' => (x =? y) && bin_eqb a' b'
  | _, _ => false
  end.
Definition ipkey_eqb (a b : ipkey) : bool := (fst a =? fst b) && bin_eqb (snd a) (snd b).

Fixpoint ip_get (h : list (ipkey * nat)) (k : ipkey) : option nat :=
  match h with [] => None | (k', v) :: t => if ipkey_eqb k' k then Some v else ip_get t k end.
Fixpoint host_get (h : list (str * nat)) (k : str) : option nat :=
  match h with [] => None | (k', v) :: t => if strcaseeq k' k then Some v else host_get t k end.

(* ares_hosts_file_match: first the address, then the host names in order *)
Inductive hmatch := MNone | MIp (i : nat) | MHost (i : nat).
Fixpoint first_host_match (h : list (str * nat)) (hosts : list str) : option nat :=
  match hosts with
  | [] => None
  | x :: t => match host_get h x with Some i => Some i | None => first_host_match h t end
  end.
Definition hosts_match (hf : hfile) (l : hline) : hmatch :=
  match ip_get (hf_iphash hf) (hl_ip l) with
  | Some i => MIp i
  | None => match first_host_match (hf_hosthash hf) (hl_hosts l) with Some i => MHost i | None => MNone end
  end.

Definition update_entry (es : list hentry) (i : nat) (f : hentry -> hentry) : list hentry :=
  match nth_error es i with
  | Some e => firstn i es ++ f e :: skipn (S i) es
  | None => es
  end.

(* insert unless present ("first hostname match wins") *)
Fixpoint hosthash_add (h : list (str * nat)) (names : list str) (i : nat) : list (str * nat) :=
  match names with
  | [] => h
  | x :: t => hosthash_add (match host_get h x with Some _ => h | None => h ++ [(x, i)] end) t i
  end.

(* ares_hosts_file_add (with merge_entry) for one parsed line *)
Definition hosts_add (hf : hfile) (l : hline) : hfile :=
  let fresh := filter (fun x => match host_get (hf_hosthash hf) x with Some _ => false | None => true end) (hl_hosts l) in
  match hosts_match hf l with
  | MNone =>
    let i := length (hf_entries hf) in
    mkHFile (hf_entries hf ++ [mkHEntry [hl_ip l] (hl_hosts l)])
            (hf_iphash hf ++ [(hl_ip l, i)])
            (hosthash_add (hf_hosthash hf) (hl_hosts l) i)
  | MHost i =>
    (* the address is new (otherwise the match would have been on the address) *)
    mkHFile (update_entry (hf_entries hf) i (fun e => mkHEntry (he_ips e ++ [hl_ip l]) (he_hosts e ++ fresh)))
            (hf_iphash hf ++ [(hl_ip l, i)])
            (hosthash_add (hf_hosthash hf) fresh i)
  | MIp i =>
    mkHFile (update_entry (hf_entries hf) i (fun e => mkHEntry (he_ips e) (he_hosts e ++ fresh)))
            (hf_iphash hf)
            (hosthash_add (hf_hosthash hf) fresh i)
  end.

Definition hosts_build (lines : list hline) : hfile := fold_left hosts_add lines hf_empty.

Definition hosts_search_host (hf : hfile) (name : str) : option hentry :=
  match host_get (hf_hosthash hf) name with Some i => nth_error (hf_entries hf) i | None => None end.
Definition hosts_search_ip (hf : hfile) (ip : ipkey) : option hentry :=
  match ip_get (hf_iphash hf) ip with Some i => nth_error (hf_entries hf) i | None => None end.

(* ares_hosts_ai_append_cnames *)
Definition entry_cnames (e : hentry) : list ai_cname :=
  match he_hosts e with
  | [] => []
  | primary :: aliases =>
    match firstn 100 aliases with
    | [] => [mkCname 0 None (Some primary)]
    | al => map (fun a => mkCname 0 (Some a) (Some primary)) al
    end
  end.

(* the loop over entry->ips of ares_hosts_entry_to_addrinfo *)
Fixpoint entry_nodes (ips : list ipkey) (family port : Z) (acc : list ai_node) : list ai_node :=
  match ips with
  | [] => acc
  | ip :: rest =>
    if (family =? LEG_AF_UNSPEC) || (family =? fst ip)
    then entry_nodes rest family port (acc ++ [mkNode (fst ip) (snd ip) port (ttl_to_int 0)])
    else entry_nodes rest family port acc                                 (* ares_dns_pton fails *)
  end.

Definition entry_to_addrinfo (e : hentry) (name : option str) (family port : Z) (want_cnames : bool)
           (ai : addrinfo) : Z * addrinfo :=
  if negb ((family =? LEG_AF_INET) || (family =? LEG_AF_INET6) || (family =? LEG_AF_UNSPEC))
  then (ARES_EBADFAMILY, ai)
  else
    let nm := match name with Some n => Some n | None => ai_name ai end in
    match entry_nodes (he_ips e) family port [] with
    | [] => (ARES_ENOTFOUND, mkAI None (ai_nodes ai) (ai_cnames ai))       (* ai->name freed *)
    | nodes =>
      (ARES_SUCCESS, mkAI nm (ai_nodes ai ++ nodes)
                          (ai_cnames ai ++ (if want_cnames then entry_cnames e else [])))
    end.

(* ------------------------------------------------------------------------------------ *)
(* ares_getaddrinfo                                                                      *)
(* ------------------------------------------------------------------------------------ *)
Definition AI_CANONNAME : Z := 1.
Definition AI_NOSORT : Z := 128.
Definition has_flag (flags f : Z) : bool := negb (Z.land flags f =? 0).

Definition is_digit_dot (c : Z) : bool := ((48 <=? c) && (c <=? 57)) || (c =? 46).
Definition count_dots (s : str) : nat := length (filter (fun c => c =? 46) s).

(* ares_inet_pton(AF_INET, name) for a name made of digits and dots (the only names fake_addrinfo
   hands to it): the decimal branch of ares_inet_net_pton_ipv4.  Octets are decimal numbers
   (leading zeros allowed, no octal) that may not exceed 255 at any point of their
   accumulation; a dot must be followed by a digit (no empty octet, no trailing dot, no leading
   dot); a fifth octet does not fit (EMSGSIZE).  Fewer than four octets are zero-extended (a
   classful network); with exactly three dots the result has four octets. *)
Fixpoint pton4_loop (s : str) (tmp : Z) (in_octet : bool) (acc : bin) : option bin :=
  match s with
  | [] => if in_octet then (if Nat.ltb (length acc) 4 then Some (acc ++ [tmp]) else None) else None
  | c :: rest =>
    if (48 <=? c) && (c <=? 57) then
      let t := tmp * 10 + (c - 48) in
      if t >? 255 then None else pton4_loop rest t true acc
    else if c =? 46 then
      (if in_octet then (if Nat.ltb (length acc) 4 then pton4_loop rest 0 false (acc ++ [tmp]) else None) else None)
    else None
  end.
Definition inet_pton4 (name : str) : option bin :=
  match pton4_loop name 0 false [] with
  | Some l => Some (l ++ repeat 0 (4 - length l))
  | None => None
  end.

(* fake_addrinfo: [pton4]/[pton6] are ares_inet_pton(AF_INET/AF_INET6, name).
   With fixes/C13-gai-literal-family.patch: a dotted-quad literal for an AF_INET6 request ends
   the request with ARES_ENOTFOUND. *)
Inductive fake_result := FNone | FAddr (ai : addrinfo) | FFail (st : Z).

Definition fake_addrinfo (name : str) (family port flags : Z) (pton4 pton6 : option bin) : fake_result :=
  let r4 :=
      if (family =? LEG_AF_INET) || (family =? LEG_AF_INET6) || (family =? LEG_AF_UNSPEC) then
        if forallb is_digit_dot name && Nat.eqb (count_dots name) 3 then pton4 else None
      else None in
  let cn := if has_flag flags AI_CANONNAME then [mkCname 0 None (Some name)] else [] in
  match r4 with
  | Some a =>
    if family =? LEG_AF_INET6 then FFail ARES_ENOTFOUND
    else FAddr (mkAI None [mkNode LEG_AF_INET a port (ttl_to_int 0)] cn)
  | None =>
    if (family =? LEG_AF_INET6) || (family =? LEG_AF_UNSPEC)
    then match pton6 with
         | Some a => FAddr (mkAI None [mkNode LEG_AF_INET6 a port (ttl_to_int 0)] cn)
         | None => FNone
         end
    else FNone
  end.

Definition dot_localhost : str := [46; 108; 111; 99; 97; 108; 104; 111; 115; 116].
Definition is_localhost (name : str) : bool :=
  strcaseeq name (tl dot_localhost) ||
  (Nat.leb 10 (length name) && strcaseeq (skipn (length name - 10) name) dot_localhost).

(* outcome of one sub-query as the query layer reports it to host_callback *)
Inductive qres := QOk (rec : dnsrec) | QErr (st : Z).
Definition qres_status (r : qres) : Z := match r with QOk _ => ARES_SUCCESS | QErr st => st end.

(* one candidate name: the sub-query results in the order their callbacks ran *)
Record round := mkRound { r_arrivals : list qres; r_single_label : bool }.

(* ai_restrict_family (fixes/C13-gai-family-restrict.patch) *)
Fixpoint restrict_family (family : Z) (nodes : list ai_node) : list ai_node :=
  match nodes with
  | [] => []
  | nd :: rest => if n_family nd =? family then nd :: restrict_family family rest
                  else restrict_family family rest
  end.

(* first half of host_callback: fold the answer into hquery->ai *)
Definition hc_parse (family port : Z) (ai : addrinfo) (r : qres) : Z * addrinfo :=
  match r with
  | QErr _ => (ARES_SUCCESS, ai)
  | QOk rec =>
    let '(st, ai1) := parse_into_addrinfo rec true port ai in
    if (st =? ARES_SUCCESS) && negb (family =? LEG_AF_UNSPEC) then
      match restrict_family family (ai_nodes ai1) with
      | [] => (ARES_ENODATA, mkAI (ai_name ai1) [] [])
      | nodes => (ARES_SUCCESS, mkAI (ai_name ai1) nodes (ai_cnames ai1))
      end
    else (st, ai1)
  end.

Inductive decision := DEnd (st : Z) | DNext (st : Z).

(* second half: the ladder taken when no sub-query of the name is outstanding any more *)
(* hquery->nodata_cnt and hquery->nomem *)
Record hst := mkHS { hs_nodata : nat; hs_nomem : bool }.
Definition hst0 : hst := mkHS 0 false.

(* bookkeeping done for every completed sub-query, before the ladder:
   nomem is latched; a no-data answer is counted also when another sub-query of the name is
   still outstanding (/repo 3eb5c71) *)
Definition hc_note (status addinfostatus : Z) (outstanding : bool) (s : hst) : hst :=
  mkHS (if outstanding && ((status =? ARES_ENODATA) || (addinfostatus =? ARES_ENODATA))
        then S (hs_nodata s) else hs_nodata s)
       (hs_nomem s || (status =? ARES_ENOMEM) || (addinfostatus =? ARES_ENOMEM)).

Definition hc_decide (single_label : bool) (status addinfostatus : Z) (ai : addrinfo) (s : hst)
  : decision * hst :=
  let nodata := hs_nodata s in
  if (status =? ARES_EDESTRUCTION) || (status =? ARES_ECANCELLED) then (DEnd status, s)
  else if hs_nomem s then (DEnd ARES_ENOMEM, s)
  else if negb (addinfostatus =? ARES_SUCCESS) && negb (addinfostatus =? ARES_ENODATA) then
    (if (addinfostatus =? ARES_EBADRESP) && negb (is_nil (ai_nodes ai)) then (DEnd ARES_SUCCESS, s)
     else (DEnd addinfostatus, s))
  else if negb (is_nil (ai_nodes ai)) then (DEnd ARES_SUCCESS, s)
  else if (status =? ARES_ENOTFOUND) || (status =? ARES_ENODATA) || (addinfostatus =? ARES_ENODATA) then
    let nodata' := if (status =? ARES_ENODATA) || (addinfostatus =? ARES_ENODATA) then S nodata else nodata in
    (DNext (if Nat.eqb nodata' 0 then status else ARES_ENODATA), mkHS nodata' (hs_nomem s))
  else if ((status =? ARES_ESERVFAIL) || (status =? ARES_EREFUSED)) && single_label then
    (DNext (if Nat.eqb nodata 0 then status else ARES_ENODATA), s)
  else (DEnd status, s).

Definition ERR_INCOMPLETE : Z := -2.     (* the history ends before the request does *)

(* the callbacks of one candidate name; [remaining] sub-queries are outstanding *)
Fixpoint run_round (family port : Z) (single_label : bool) (arrivals : list qres) (remaining : nat)
         (ai : addrinfo) (nodata : hst) : outcome (decision * addrinfo * hst) :=
  match arrivals with
  | [] => Err ERR_INCOMPLETE
  | r :: rest =>
    let '(ais, ai') := hc_parse family port ai r in
    match remaining with
    | 0%nat | 1%nat =>
      let '(d, nodata') := hc_decide single_label (qres_status r) ais ai' (hc_note (qres_status r) ais false nodata) in
      Ok (d, ai', nodata')
    | S rem' => run_round family port single_label rest rem' ai' (hc_note (qres_status r) ais true nodata)
    end
  end.

Definition nqueries (family : Z) : nat := if family =? LEG_AF_UNSPEC then 2%nat else 1%nat.

(* file_lookup of ares_getaddrinfo.c *)
Definition gai_file_lookup (hf : hfile) (name : str) (family port flags : Z) (ai : addrinfo) : Z * addrinfo :=
  let '(st, ai1) :=
      match hosts_search_host hf name with
      | None => (ARES_ENOTFOUND, ai)
      | Some e => entry_to_addrinfo e (Some name) family port (has_flag flags AI_CANONNAME) ai
      end in
  if is_localhost name then addrinfo_localhost name port family ai1 else (st, ai1).

Inductive lk := LB | LF.

(* next_lookup while remaining_lookups points at 'b': one candidate name after the other *)
Fixpoint dns_lookups (family port : Z) (rounds : list round) (ai : addrinfo) (nodata : hst) (status : Z)
  : outcome (option Z * addrinfo * hst * Z) :=          (* Some st: end_hquery(st); None: names exhausted *)
  match rounds with
  | [] => Ok (None, ai, nodata, status)
  | r :: rest =>
    do x <- run_round family port (r_single_label r) (r_arrivals r) (nqueries family) ai nodata;
    let '(d, ai', nodata') := x in
    match d with
    | DEnd st => Ok (Some st, ai', nodata', st)
    | DNext st => dns_lookups family port rest ai' nodata' st
    end
  end.

Fixpoint next_lookup (hf : hfile) (name : str) (family port flags : Z) (lookups : list lk)
         (rounds : list round) (ai : addrinfo) (nodata : hst) (status : Z) : outcome (Z * addrinfo) :=
  match lookups with
  | [] => Ok (status, ai)
  | LB :: rest =>
    if is_localhost name then next_lookup hf name family port flags rest rounds ai nodata status
    else
      do x <- dns_lookups family port rounds ai nodata status;
      let '(fin, ai', nodata', status') := x in
      match fin with
      | Some st => Ok (st, ai')
      | None => next_lookup hf name family port flags rest [] ai' nodata' status'
      end
  | LF :: rest =>
    let '(st, ai') := gai_file_lookup hf name family port flags ai in
    if st =? ARES_SUCCESS then Ok (ARES_SUCCESS, ai')
    else next_lookup hf name family port flags rest rounds ai' nodata status
  end.

(* ares_getaddrinfo_int + end_hquery: result status and, on success, the addrinfo handed to
   the callback.  Sorting (unless ARES_AI_NOSORT) permutes the nodes: see C13_sort_is_permutation;
   the node list here is in arrival order. *)
Definition getaddrinfo (hf : hfile) (lookups : list lk) (name : str) (family : Z) (port : option Z)
           (flags : Z) (pton4 pton6 : option bin) (names_status : Z) (rounds : list round)
  : outcome (Z * option addrinfo) :=
  if negb ((family =? LEG_AF_INET) || (family =? LEG_AF_INET6) || (family =? LEG_AF_UNSPEC))
  then Ok (ARES_ENOTIMP, None)
  else match port with
  | None => Ok (ARES_ESERVICE, None)
  | Some port =>
    match fake_addrinfo name family port flags pton4 pton6 with
    | FAddr ai => Ok (ARES_SUCCESS, Some ai)
    | FFail st => Ok (st, None)
    | FNone =>
      (* ares_search_name_list (property C12) may reject the name *)
      if negb (names_status =? ARES_SUCCESS) then Ok (names_status, None) else
      do x <- next_lookup hf name family port flags lookups rounds ai_empty hst0 ARES_ECONNREFUSED;
      let '(st, ai) := x in
      if st =? ARES_SUCCESS then Ok (st, Some ai) else Ok (st, None)
    end
  end.

(* ------------------------------------------------------------------------------------ *)
(* ares_gethostbyname (callback part); the address order after sorting is not modelled   *)
(* ------------------------------------------------------------------------------------ *)
Definition ghbn_callback (status : Z) (ai : option addrinfo) : outcome (Z * option host_view) :=
  match ai with
  | Some a =>
    if status =? ARES_SUCCESS then
      do r <- addrinfo2hostent a LEG_AF_UNSPEC None;
      match snd r with
      | Some h =>
        do v <- view_host h;
        if fst r =? ARES_SUCCESS then
          match hv_addrs v with
          | [] => Ok (ARES_ENODATA, Some v)
          | _ => Ok (ARES_SUCCESS, Some v)
          end
        else Ok (fst r, Some v)
      | None => Ok (fst r, None)
      end
    else Ok (status, None)
  | None => Ok (status, None)
  end.

(* ------------------------------------------------------------------------------------ *)
(* ares_gethostbyaddr                                                                    *)
(* ------------------------------------------------------------------------------------ *)
Definition entry_to_hostent (e : hentry) (family : Z) : outcome (Z * option host_view) :=
  let '(st, ai) := entry_to_addrinfo e None family 0 true ai_empty in
  if st =? ARES_SUCCESS then
    do r <- addrinfo2hostent ai family None;
    match snd r with
    | Some h => do v <- view_host h; Ok (fst r, Some v)
    | None => Ok (fst r, None)
    end
  else Ok (st, None).

(* [answers]: the outcome of the PTR query for every 'b' reached, in order.  Result: the names
   queried, the final status and hostent. *)
Fixpoint ghba_lookup (hf : hfile) (family : Z) (addr : bin) (lookups : list lk) (answers : list qres)
         (queried : list str) : outcome (list str * Z * option host_view) :=
  match lookups with
  | [] => Ok (queried, ARES_ENOTFOUND, None)
  | LB :: rest =>
    do nm <- addr_to_ptr family addr;
    match nm with
    | None => Ok (queried, ARES_ENOMEM, None)
    | Some qn =>
      match answers with
      | [] => Err ERR_INCOMPLETE
      | QOk rec :: _ =>
        do r <- parse_ptr_reply_dnsrec rec (Some addr) (Z.of_nat (length addr)) family;
        match snd r with
        | HSome h => do v <- view_host h; Ok (queried ++ [qn], fst r, Some v)
        | _ => Ok (queried ++ [qn], fst r, None)
        end
      | QErr st :: answers' =>
        if (st =? ARES_EDESTRUCTION) || (st =? ARES_ECANCELLED) then Ok (queried ++ [qn], st, None)
        else ghba_lookup hf family addr rest answers' (queried ++ [qn])
      end
    end
  | LF :: rest =>
    match hosts_search_ip hf (family, addr) with
    | Some e =>
      do r <- entry_to_hostent e family;
      if fst r =? ARES_SUCCESS then Ok (queried, ARES_SUCCESS, snd r)
      else ghba_lookup hf family addr rest answers queried
    | None => ghba_lookup hf family addr rest answers queried
    end
  end.

Definition gethostbyaddr (hf : hfile) (lookups : list lk) (family : Z) (addr : bin) (answers : list qres)
  : outcome (list str * Z * option host_view) :=
  if negb ((family =? LEG_AF_INET) || (family =? LEG_AF_INET6)) then Ok ([], ARES_ENOTIMP, None)
  else ghba_lookup hf family addr lookups answers [].

(* ------------------------------------------------------------------------------------ *)
(* specification                                                                         *)
(* ------------------------------------------------------------------------------------ *)
(* the address records one candidate name's accepted answers carry, restricted to the family *)
Definition wanted (family : Z) (nd : ai_node) : bool := (family =? LEG_AF_UNSPEC) || (n_family nd =? family).
Definition answer_nodes (family port : Z) (r : qres) : list ai_node :=
  match r with
  | QOk rec => filter (wanted family) (spec_nodes port (r_answers rec))
  | QErr _ => []
  end.
Definition round_nodes (family port : Z) (r : round) : list ai_node :=
  flat_map (answer_nodes family port) (firstn (nqueries family) (r_arrivals r)).

(* the addresses of the hosts-file entry of a name *)
Definition spec_hosts_nodes (hf : hfile) (name : str) (family port : Z) : list ai_node :=
  match hosts_search_host hf name with
  | None => []
  | Some e => map (fun ip => mkNode (fst ip) (snd ip) port 0)
                  (filter (fun ip => (family =? LEG_AF_UNSPEC) || (family =? fst ip)) (he_ips e))
  end.
Definition spec_file_nodes (hf : hfile) (name : str) (family port : Z) : list ai_node :=
  if is_localhost name then spec_loopback family port (spec_hosts_nodes hf name family port)
  else spec_hosts_nodes hf name family port.

(* the source that wins, walking the lookup string; DNS: the first candidate with an address *)
Fixpoint first_round_nodes (family port : Z) (rounds : list round) : list ai_node :=
  match rounds with
  | [] => []
  | r :: rest => match round_nodes family port r with [] => first_round_nodes family port rest | l => l end
  end.
Fixpoint spec_lookup_nodes (hf : hfile) (name : str) (family port : Z) (lookups : list lk) (rounds : list round)
  : list ai_node :=
  match lookups with
  | [] => []
  | LB :: rest =>
    if is_localhost name then spec_lookup_nodes hf name family port rest rounds
    else match first_round_nodes family port rounds with
         | [] => spec_lookup_nodes hf name family port rest []
         | l => l
         end
  | LF :: rest =>
    match spec_file_nodes hf name family port with
    | [] => spec_lookup_nodes hf name family port rest rounds
    | l => l
    end
  end.

(* a literal: the address itself, when its family is the requested one *)
Definition spec_literal (family port : Z) (pton4 pton6 : option bin) : option (list ai_node) :=
  match pton4, pton6 with
  | Some a, _ => Some (if (family =? LEG_AF_UNSPEC) || (family =? LEG_AF_INET) then [mkNode LEG_AF_INET a port 0] else [])
  | None, Some a => Some (if (family =? LEG_AF_UNSPEC) || (family =? LEG_AF_INET6) then [mkNode LEG_AF_INET6 a port 0] else [])
  | None, None => None
  end.

Definition spec_gai_nodes (hf : hfile) (lookups : list lk) (name : str) (family port : Z)
           (pton4 pton6 : option bin) (rounds : list round) : list ai_node :=
  match spec_literal family port pton4 pton6 with
  | Some l => l
  | None => spec_lookup_nodes hf name family port lookups rounds
  end.

(* with the concrete IPv4 parser: which names are literals is decided by the model *)
Definition getaddrinfo_c (hf : hfile) (lookups : list lk) (name : str) (family : Z) (port : option Z)
           (flags : Z) (pton6 : option bin) (names_status : Z) (rounds : list round) :=
  getaddrinfo hf lookups name family port flags (inet_pton4 name) pton6 names_status rounds.
(* a literal in the sense of the specification: a full dotted quad / an IPv6 address *)
Definition spec_gai_nodes_c (hf : hfile) (lookups : list lk) (name : str) (family port : Z)
           (pton6 : option bin) (rounds : list round) : list ai_node :=
  spec_gai_nodes hf lookups name family port
    (if forallb is_digit_dot name && Nat.eqb (count_dots name) 3 then inet_pton4 name else None) pton6 rounds.
