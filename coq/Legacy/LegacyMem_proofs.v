(* Proofs about the ownership ledger of the legacy parsers (LegacyMem.v): for every record and
   EVERY sequence of allocator answers, no double/invalid free happens, a failing call leaves
   the ledger as it found it, and after the matching free function the ledger of a successful
   call is back to what it was. *)
From Coq Require Import Permutation.
From CAres.Legacy Require Import Rec Legacy Legacy_spec Legacy_proofs LegacyMem.
From CAres.Gen Require Import Consts.
Local Open Scope Z_scope.
Notation filter_map := Legacy_spec.filter_map.

(* ---------------- permutations of block lists by counting ---------------- *)
Definition cnt (l : list nat) (x : nat) : nat := count_occ Nat.eq_dec l x.
Lemma cnt_nil x : cnt [] x = 0%nat. Proof. reflexivity. Qed.
Lemma cnt_cons a l x : cnt (a :: l) x = (cnt [a] x + cnt l x)%nat.
Proof. unfold cnt. cbn. destruct (Nat.eq_dec a x); lia. Qed.
Lemma cnt_app l1 l2 x : cnt (l1 ++ l2) x = (cnt l1 x + cnt l2 x)%nat.
Proof. apply count_occ_app. Qed.
Lemma cnt_rev l x : cnt (rev l) x = cnt l x.
Proof. induction l as [|a l IH]; [reflexivity|]. cbn [rev]. rewrite cnt_app, IH, (cnt_cons a l). lia. Qed.
Lemma perm_cnt l1 l2 : Permutation l1 l2 <-> forall x, cnt l1 x = cnt l2 x.
Proof. apply Permutation_count_occ. Qed.

(* rewrite with cnt_cons only where the tail is not syntactically [] *)
Ltac cnt_norm :=
  repeat match goal with
         | |- context [cnt (?l1 ++ ?l2) ?x] => rewrite (cnt_app l1 l2 x)
         | |- context [cnt (rev ?l) ?x] => rewrite (cnt_rev l x)
         | |- context [cnt (?a :: ?b :: ?l) ?x] => rewrite (cnt_cons a (b :: l) x)
         | |- context [cnt (?a :: ?l) ?x] => lazymatch l with [] => fail | _ => rewrite (cnt_cons a l x) end
         | |- context [cnt [] ?x] => rewrite (cnt_nil x)
         | H : context [cnt (?l1 ++ ?l2) ?x] |- _ => rewrite (cnt_app l1 l2 x) in H
         | H : context [cnt (rev ?l) ?x] |- _ => rewrite (cnt_rev l x) in H
         | H : context [cnt (?a :: ?b :: ?l) ?x] |- _ => rewrite (cnt_cons a (b :: l) x) in H
         | H : context [cnt (?a :: ?l) ?x] |- _ => lazymatch l with [] => fail | _ => rewrite (cnt_cons a l x) in H end
         | H : context [cnt [] ?x] |- _ => rewrite (cnt_nil x) in H
         end.

Ltac perm_solve :=
  apply (proj2 (perm_cnt _ _)); let x := fresh "x" in intro x;
  repeat match goal with
         | H : Permutation ?a ?b |- _ => let H' := fresh "Hc" in pose proof (proj1 (perm_cnt a b) H x) as H'; clear H
         end;
  cnt_norm; lia.

(* ---------------- the ledger ---------------- *)
Definition wf (m : mem) : Prop := NoDup (m_live m) /\ Forall (fun b => (b < m_count m)%nat) (m_live m).

Section Ledger.
  Variable fail : nat -> bool.

  Lemma alloc_some m b m' : wf m -> alloc fail m = (Some b, m') ->
    wf m' /\ m_live m' = b :: m_live m /\ b = m_count m /\ m_count m' = S (m_count m).
  Proof.
    intros [Hnd Hlt]. unfold alloc. destruct (fail (m_count m)); [discriminate|]. intros [= <- <-]. cbn.
    split; [split|auto].
    - constructor; [|exact Hnd]. intros Hin. rewrite Forall_forall in Hlt. specialize (Hlt _ Hin). cbn beta in Hlt. lia.
    - constructor; [cbn; lia|]. eapply Forall_impl; [|exact Hlt]. cbn. intros; lia.
  Qed.

  Lemma alloc_none m m' : wf m -> alloc fail m = (None, m') ->
    wf m' /\ m_live m' = m_live m /\ m_count m' = S (m_count m) /\ fail (m_count m) = true.
  Proof.
    intros [Hnd Hlt]. unfold alloc. destruct (fail (m_count m)) eqn:E; [|discriminate]. intros [= <-]. cbn.
    split; [split; [exact Hnd|]|auto]. eapply Forall_impl; [|exact Hlt]. cbn. intros; lia.
  Qed.

  Lemma alloc_nofail m : fail (m_count m) = false -> exists m', alloc fail m = (Some (m_count m), m').
  Proof. intros E. unfold alloc. rewrite E. eauto. Qed.

  Lemma free_ok m b : wf m -> In b (m_live m) ->
    exists m', free m b = Ok m' /\ wf m' /\ Permutation (m_live m) (b :: m_live m') /\ m_count m' = m_count m.
  Proof.
    intros [Hnd Hlt] Hin. unfold free.
    assert (E : existsb (Nat.eqb b) (m_live m) = true) by (apply existsb_exists; exists b; split; [exact Hin | apply Nat.eqb_refl]).
    rewrite E. eexists. split; [reflexivity|]. cbn.
    assert (Hp : Permutation (m_live m) (b :: remove Nat.eq_dec b (m_live m))).
    { clear E Hlt. induction (m_live m) as [|a l IH]; [destruct Hin|].
      inversion Hnd as [|? ? Hna Hnd']; subst. cbn [remove]. destruct (Nat.eq_dec b a) as [->|Hne].
      - rewrite notin_remove by exact Hna. reflexivity.
      - destruct Hin as [->|Hin]; [congruence|]. rewrite perm_swap. constructor. apply IH; assumption. }
    split; [split|split; [exact Hp | reflexivity]].
    - apply (Permutation_NoDup Hp) in Hnd. inversion Hnd; assumption.
    - apply Forall_forall. intros x Hx. apply in_remove in Hx. rewrite Forall_forall in Hlt. apply Hlt, Hx.
  Qed.

  Lemma free_many_ok bs : forall m L, wf m -> Permutation (m_live m) (bs ++ L) ->
    exists m', free_many bs m = Ok m' /\ wf m' /\ Permutation (m_live m') L /\ m_count m' = m_count m.
  Proof.
    induction bs as [|b rest IH]; intros m L Hwf Hp; cbn [free_many].
    - exists m. auto.
    - assert (Hin : In b (m_live m)) by (apply (Permutation_in _ (Permutation_sym Hp)); left; reflexivity).
      destruct (free_ok m b Hwf Hin) as (m1 & E & Hwf1 & Hp1 & Hc1). rewrite E. cbn [bind].
      assert (Hp2 : Permutation (m_live m1) (rest ++ L)).
      { apply (Permutation_cons_inv (a := b)). eapply Permutation_trans; [apply Permutation_sym; exact Hp1 | exact Hp]. }
      destruct (IH m1 L Hwf1 Hp2) as (m' & E' & Hwf' & Hp' & Hc'). exists m'. split; [exact E'|]. split; [exact Hwf'|]. split; [exact Hp' | lia].
  Qed.

  (* ---------------- pointer fields of one node ---------------- *)
  Lemma somes_app l1 l2 : somes (l1 ++ l2) = somes l1 ++ somes l2.
  Proof. induction l1 as [|[b|] l1 IH]; cbn; [reflexivity | rewrite IH; reflexivity | exact IH]. Qed.
  Lemma somes_repeat_none n : somes (repeat None n) = [].
  Proof. induction n; [reflexivity | exact IHn]. Qed.

  Lemma alloc_fields_spec k : forall m acc ok fs m' L, wf m ->
    Permutation (m_live m) (somes acc ++ L) ->
    alloc_fields fail k m acc = (ok, fs, m') ->
    wf m' /\ Permutation (m_live m') (somes fs ++ L) /\ (m_count m <= m_count m')%nat /\
    ((forall j, (m_count m <= j)%nat -> fail j = false) -> ok = true).
  Proof.
    induction k as [|k IH]; intros m acc ok fs m' L Hwf Hp; cbn [alloc_fields].
    - intros [= <- <- <-]. auto.
    - destruct (alloc fail m) as [[b|] m1] eqn:Ea.
      + destruct (alloc_some m b m1 Hwf Ea) as (Hwf1 & Hl1 & _ & Hc1). intros Hrun.
        assert (Hp1 : Permutation (m_live m1) (somes (acc ++ [Some b]) ++ L)).
        { rewrite Hl1, somes_app. cbn [somes]. perm_solve. }
        destruct (IH m1 _ ok fs m' L Hwf1 Hp1 Hrun) as (Hwf' & Hp' & Hc' & Hnf).
        split; [exact Hwf'|]. split; [exact Hp'|]. split; [lia|]. intros Hall. apply Hnf. intros j Hj. apply Hall. lia.
      + destruct (alloc_none m m1 Hwf Ea) as (Hwf1 & Hl1 & Hc1 & Hf). intros [= <- <- <-].
        split; [exact Hwf1|]. split; [|split; [lia|]].
        * change (None :: repeat None k) with (repeat (@None nat) (S k)). rewrite Hl1, somes_app, somes_repeat_none, app_nil_r. exact Hp.
        * intros Hall. rewrite Hall in Hf by lia. discriminate.
  Qed.

  (* ---------------- linked-list parsers ---------------- *)
  Lemma items_loop_spec items : forall acc m ok acc' m' L, wf m ->
    Permutation (m_live m) (flat_map node_blocks acc ++ L) ->
    items_loop fail items acc m = (ok, acc', m') ->
    wf m' /\ Permutation (m_live m') (flat_map node_blocks acc' ++ L) /\ (m_count m <= m_count m')%nat /\
    ((forall j, (m_count m <= j)%nat -> fail j = false) -> ok = true /\ length acc' = (length acc + length items)%nat).
  Proof.
    induction items as [|k rest IH]; intros acc m ok acc' m' L Hwf Hp; cbn [items_loop].
    - intros [= <- <- <-]. split; [exact Hwf|]. split; [exact Hp|]. split; [lia|]. intros _. split; [reflexivity | cbn [length]; lia].
    - destruct (alloc fail m) as [[b|] m1] eqn:Ea.
      + destruct (alloc_some m b m1 Hwf Ea) as (Hwf1 & Hl1 & _ & Hc1).
        destruct (alloc_fields fail k m1 []) as [[okf fs] m2] eqn:Ef.
        assert (Hp1 : Permutation (m_live m1) (somes [] ++ (b :: flat_map node_blocks acc ++ L)))
          by (rewrite Hl1; cbn [somes app]; perm_solve).
        destruct (alloc_fields_spec k m1 [] okf fs m2 _ Hwf1 Hp1 Ef) as (Hwf2 & Hp2 & Hc2 & Hnf2).
        assert (Hp3 : Permutation (m_live m2) (flat_map node_blocks (acc ++ [mkLNode b fs]) ++ L)).
        { rewrite flat_map_app. cbn [flat_map]. unfold node_blocks at 2. cbn [ln_fields ln_blk]. perm_solve. }
        destruct okf.
        * intros Hrun. destruct (IH _ m2 ok acc' m' L Hwf2 Hp3 Hrun) as (Hwf' & Hp' & Hc' & Hnf').
          split; [exact Hwf'|]. split; [exact Hp'|]. split; [lia|]. intros Hall.
          destruct Hnf' as [Ho Hlen]; [intros j Hj; apply Hall; lia|].
          split; [exact Ho|]. rewrite Hlen, app_length. cbn [length]. lia.
        * intros [= <- <- <-]. split; [exact Hwf2|]. split; [exact Hp3|]. split; [lia|].
          intros Hall. discriminate (Hnf2 ltac:(intros j Hj; apply Hall; lia)).
      + destruct (alloc_none m m1 Hwf Ea) as (Hwf1 & Hl1 & Hc1 & Hf). intros [= <- <- <-].
        split; [exact Hwf1|]. split; [rewrite Hl1; exact Hp|]. split; [lia|].
        intros Hall. rewrite Hall in Hf by lia. discriminate.
  Qed.

  Lemma list_loop_mem_spec items_of rrs : forall acc m ok acc' m' L, wf m ->
    Permutation (m_live m) (flat_map node_blocks acc ++ L) ->
    list_loop_mem fail items_of rrs acc m = (ok, acc', m') ->
    wf m' /\ Permutation (m_live m') (flat_map node_blocks acc' ++ L) /\ (m_count m <= m_count m')%nat /\
    ((forall j, (m_count m <= j)%nat -> fail j = false) ->
     ok = true /\ length acc' = (length acc + length (flat_map items_of rrs))%nat).
  Proof.
    induction rrs as [|r rest IH]; intros acc m ok acc' m' L Hwf Hp; cbn [list_loop_mem].
    - intros [= <- <- <-]. split; [exact Hwf|]. split; [exact Hp|]. split; [lia|]. intros _. split; [reflexivity | cbn [flat_map length]; lia].
    - destruct (items_loop fail (items_of r) acc m) as [[ok1 acc1] m1] eqn:Ei.
      destruct (items_loop_spec _ _ _ _ _ _ L Hwf Hp Ei) as (Hwf1 & Hp1 & Hc1 & Hnf1).
      destruct ok1.
      + intros Hrun. destruct (IH _ m1 ok acc' m' L Hwf1 Hp1 Hrun) as (Hwf' & Hp' & Hc' & Hnf').
        split; [exact Hwf'|]. split; [exact Hp'|]. split; [lia|]. intros Hall.
        destruct (Hnf1 Hall) as [_ Hl1]. destruct Hnf' as [Ho Hl']; [intros j Hj; apply Hall; lia|].
        split; [exact Ho|]. cbn [flat_map]. rewrite Hl', Hl1, app_length. lia.
      + intros [= <- <- <-]. split; [exact Hwf1|]. split; [exact Hp1|]. split; [lia|].
        intros Hall. destruct (Hnf1 Hall) as [Ho _]. discriminate Ho.
  Qed.

  (* ares_parse_{mx,srv,naptr,caa,uri,txt,txt_ext}_reply + ares_free_data *)
  Theorem list_parser_ledger items_of neg p m : wf m ->
    exists st out m', list_parser_mem fail items_of neg p m = Ok (st, out, m') /\ wf m' /\
      Permutation (m_live m') (flat_map node_blocks out ++ m_live m) /\
      (st <> ARES_SUCCESS -> out = []) /\
      exists m'', free_data out m' = Ok m'' /\ wf m'' /\ Permutation (m_live m'') (m_live m).
  Proof.
    intros Hwf. unfold list_parser_mem.
    assert (Hbase : forall st, exists st0 out m', Ok (st, @nil lnode, m) = Ok (st0, out, m') /\ wf m' /\
               Permutation (m_live m') (flat_map node_blocks out ++ m_live m) /\ (st0 <> ARES_SUCCESS -> out = []) /\
               exists m'', free_data out m' = Ok m'' /\ wf m'' /\ Permutation (m_live m'') (m_live m)).
    { intros st. exists st, [], m. split; [reflexivity|]. split; [exact Hwf|]. split; [reflexivity|]. split; [auto|].
      exists m. split; [reflexivity|]. split; [exact Hwf | reflexivity]. }
    destruct neg; [apply Hbase|]. destruct p as [s|rec]; [apply Hbase|].
    destruct (Nat.eqb (length (r_answers rec)) 0); [apply Hbase|].
    destruct (list_loop_mem fail items_of (r_answers rec) [] m) as [[ok nodes] m1] eqn:El.
    destruct (list_loop_mem_spec items_of _ [] m _ _ _ (m_live m) Hwf (Permutation_refl _) El) as (Hwf1 & Hp1 & _ & _).
    destruct (free_many_ok (flat_map node_blocks nodes) m1 (m_live m) Hwf1 Hp1) as (m2 & Ef & Hwf2 & Hp2 & _).
    destruct ok.
    - exists ARES_SUCCESS, nodes, m1. split; [reflexivity|]. split; [exact Hwf1|]. split; [exact Hp1|].
      split; [congruence|]. exists m2. auto.
    - unfold free_data. rewrite Ef. cbn [bind]. exists ARES_ENOMEM, [], m2. split; [reflexivity|]. split; [exact Hwf2|].
      split; [exact Hp2|]. split; [auto|]. exists m2. split; [reflexivity|]. split; [exact Hwf2 | exact Hp2].
  Qed.

  (* with an allocator that never fails the list has one node per projected item *)
  Theorem list_parser_nofail items_of rec m : wf m -> (forall j, fail j = false) -> r_answers rec <> [] ->
    exists out m', list_parser_mem fail items_of false (Parsed rec) m = Ok (ARES_SUCCESS, out, m') /\
                   length out = length (flat_map items_of (r_answers rec)).
  Proof.
    intros Hwf Hnf Hne. unfold list_parser_mem.
    destruct (r_answers rec) as [|r rest] eqn:E; [congruence|]. change (Nat.eqb (length (r :: rest)) 0) with false. cbv iota.
    destruct (list_loop_mem fail items_of (r :: rest) [] m) as [[ok nodes] m1] eqn:El.
    destruct (list_loop_mem_spec items_of _ [] m _ _ _ (m_live m) Hwf (Permutation_refl _) El) as (_ & _ & _ & Hn).
    destruct (Hn ltac:(intros; apply Hnf)) as [-> Hl]. exists nodes, m1. split; [reflexivity | exact Hl].
  Qed.

  (* ---------------- soa ---------------- *)
  Theorem soa_ledger neg p m : wf m ->
    exists st out m', soa_mem fail neg p m = Ok (st, out, m') /\ wf m' /\
      Permutation (m_live m') (flat_map node_blocks (match out with Some n => [n] | None => [] end) ++ m_live m) /\
      (st <> ARES_SUCCESS -> out = None) /\
      exists m'', free_data (match out with Some n => [n] | None => [] end) m' = Ok m'' /\ Permutation (m_live m'') (m_live m).
  Proof.
    intros Hwf. unfold soa_mem.
    assert (Hbase : forall st mm, wf mm -> m_live mm = m_live m -> exists st0 out m', Ok (st, @None lnode, mm) = Ok (st0, out, m') /\ wf m' /\
               Permutation (m_live m') (flat_map node_blocks (match out with Some n => [n] | None => [] end) ++ m_live m) /\ (st0 <> ARES_SUCCESS -> out = None) /\
               exists m'', free_data (match out with Some n => [n] | None => [] end) m' = Ok m'' /\ Permutation (m_live m'') (m_live m)).
    { intros st mm Hw Hl. exists st, None, mm. split; [reflexivity|]. split; [exact Hw|]. cbn. rewrite Hl. split; [reflexivity|]. split; [auto|].
      exists mm. split; [reflexivity|]. rewrite Hl. reflexivity. }
    destruct neg; [apply Hbase; auto|]. destruct p as [s|rec]; [apply Hbase; auto|].
    destruct (Nat.eqb (length (r_answers rec)) 0); [apply Hbase; auto|].
    destruct (filter_map proj_soa (r_answers rec)); [apply Hbase; auto|].
    destruct (alloc fail m) as [[b|] m1] eqn:Ea.
    - destruct (alloc_some m b m1 Hwf Ea) as (Hwf1 & Hl1 & _ & _).
      destruct (alloc_fields fail 2 m1 []) as [[ok fs] m2] eqn:Ef.
      assert (Hp1 : Permutation (m_live m1) (somes [] ++ (b :: m_live m))) by (rewrite Hl1; reflexivity).
      destruct (alloc_fields_spec 2 m1 [] ok fs m2 _ Hwf1 Hp1 Ef) as (Hwf2 & Hp2 & _ & _).
      assert (Hp3 : Permutation (m_live m2) (flat_map node_blocks [mkLNode b fs] ++ m_live m)).
      { cbn [flat_map]. unfold node_blocks. cbn [ln_fields ln_blk]. perm_solve. }
      destruct (free_many_ok (flat_map node_blocks [mkLNode b fs]) m2 (m_live m) Hwf2 Hp3) as (m3 & Ef3 & Hwf3 & Hp3' & _).
      destruct ok.
      + exists ARES_SUCCESS, (Some (mkLNode b fs)), m2. split; [reflexivity|]. split; [exact Hwf2|]. split; [exact Hp3|].
        split; [congruence|]. exists m3. auto.
      + unfold free_data. rewrite Ef3. cbn [bind]. exists ARES_ENOMEM, None, m3. split; [reflexivity|]. split; [exact Hwf3|].
        split; [exact Hp3'|]. split; [auto|]. exists m3. split; [reflexivity | exact Hp3'].
    - destruct (alloc_none m m1 Hwf Ea) as (Hwf1 & Hl1 & _ & _). apply Hbase; assumption.
  Qed.

  (* ---------------- pointer arrays of a hostent ---------------- *)
  Lemma fill_slots_spec n : forall xs k m, wf m -> (n < k)%nat ->
    exists ok new m', fill_slots fail n (map Some xs ++ repeat None k) (length xs) m =
                      Ok (ok, map Some (xs ++ new) ++ repeat None (k - length new), m') /\
      wf m' /\ (length new <= n)%nat /\ m_live m' = rev new ++ m_live m /\ (m_count m <= m_count m')%nat /\
      (ok = true -> length new = n) /\ ((forall j, (m_count m <= j)%nat -> fail j = false) -> ok = true).
  Proof.
    induction n as [|n IH]; intros xs k m Hwf Hk; cbn [fill_slots].
    - exists true, [], m. rewrite app_nil_r, Nat.sub_0_r. split; [reflexivity|]. split; [exact Hwf|]. split; [cbn; lia|].
      split; [reflexivity|]. split; [lia|]. split; intros _; reflexivity.
    - destruct (alloc fail m) as [[b|] m1] eqn:Ea.
      + destruct (alloc_some m b m1 Hwf Ea) as (Hwf1 & Hl1 & _ & Hc1).
        destruct k as [|k]; [lia|]. rewrite set_slot_fill. cbn [bind].
        replace (S (length xs)) with (length (xs ++ [b])) by (rewrite app_length; cbn; lia).
        destruct (IH (xs ++ [b]) k m1 Hwf1 ltac:(lia)) as (ok & new & m' & E & Hwf' & Hlen & Hl' & Hc' & Hok & Hnf).
        exists ok, (b :: new), m'. rewrite E. split.
        { rewrite <- app_assoc. cbn [app length]. replace (S k - S (length new))%nat with (k - length new)%nat by lia. reflexivity. }
        split; [exact Hwf'|]. split; [cbn [length]; lia|]. split; [rewrite Hl', Hl1; cbn [rev]; rewrite <- app_assoc; reflexivity|].
        split; [lia|]. split; [intros Ho; cbn [length]; rewrite (Hok Ho); reflexivity|].
        intros Hall. apply Hnf. intros j Hj. apply Hall. lia.
      + destruct (alloc_none m m1 Hwf Ea) as (Hwf1 & Hl1 & Hc1 & Hf).
        exists false, [], m1. rewrite app_nil_r, Nat.sub_0_r. split; [reflexivity|]. split; [exact Hwf1|]. split; [cbn; lia|].
        split; [exact Hl1|]. split; [lia|]. split; [discriminate|]. intros Hall. rewrite Hall in Hf by lia. discriminate.
  Qed.

  Lemma array_blocks_filled blk (xs : list nat) j : (0 < j)%nat ->
    array_blocks (Some (blk, map Some xs ++ repeat None j)) = Ok (xs ++ [blk]).
  Proof. intros Hj. unfold array_blocks. rewrite until_null_fill_repeat by exact Hj. reflexivity. Qed.

  Lemma free_hostent_ok h bs m L : wf m -> hostent_blocks h = Ok bs -> Permutation (m_live m) (bs ++ L) ->
    exists m', free_hostent (Some h) m = Ok m' /\ wf m' /\ Permutation (m_live m') L.
  Proof.
    intros Hwf Hb Hp. unfold free_hostent. rewrite Hb. cbn [bind].
    destruct (free_many_ok bs m L Hwf Hp) as (m' & E & Hwf' & Hp' & _). eauto.
  Qed.

  (* "after the matching free function the ledger is what it was": the common shape of the
     hostent parsers' results *)
  Definition hres_ok (m : mem) (r : outcome (Z * option hostent_m * mem)) : Prop :=
    exists st h m', r = Ok (st, h, m') /\ wf m' /\ (st <> ARES_SUCCESS -> h = None) /\
      exists m'', free_hostent h m' = Ok m'' /\ wf m'' /\ Permutation (m_live m'') (m_live m).

  Lemma hres_none m st mm : wf mm -> Permutation (m_live mm) (m_live m) -> hres_ok m (Ok (st, None, mm)).
  Proof. intros Hw Hp. exists st, None, mm. split; [reflexivity|]. split; [exact Hw|]. split; [auto|]. exists mm. auto. Qed.

  Lemma hres_fail m st h bs mm : wf mm -> hostent_blocks h = Ok bs -> Permutation (m_live mm) (bs ++ m_live m) ->
    hres_ok m (do m' <- free_hostent (Some h) mm; Ok (st, None, m')).
  Proof.
    intros Hw Hb Hp. destruct (free_hostent_ok h bs mm (m_live m) Hw Hb Hp) as (m' & E & Hw' & Hp').
    rewrite E. cbn [bind]. apply hres_none; assumption.
  Qed.

  Lemma hres_some m h bs mm : wf mm -> hostent_blocks h = Ok bs -> Permutation (m_live mm) (bs ++ m_live m) ->
    hres_ok m (Ok (ARES_SUCCESS, Some h, mm)).
  Proof.
    intros Hw Hb Hp. exists ARES_SUCCESS, (Some h), mm. split; [reflexivity|]. split; [exact Hw|]. split; [congruence|].
    destruct (free_hostent_ok h bs mm (m_live m) Hw Hb Hp) as (m' & E & Hw' & Hp'). exists m'. auto.
  Qed.

  Ltac step_alloc m0 Hwf0 b m1 Hwf1 Hl1 :=
    let Ea := fresh "Ea" in
    destruct (alloc fail m0) as [[b|] m1] eqn:Ea;
    [ destruct (alloc_some m0 b m1 Hwf0 Ea) as (Hwf1 & Hl1 & _ & _)
    | destruct (alloc_none m0 m1 Hwf0 Ea) as (Hwf1 & Hl1 & _ & _) ].

  (* ares_parse_ns_reply + ares_free_hostent *)
  Theorem ns_ledger neg p m : wf m -> hres_ok m (ns_mem fail neg p m).
  Proof.
    intros Hwf. unfold ns_mem.
    destruct neg; [apply hres_none; [exact Hwf | reflexivity]|].
    destruct p as [s|rec]; [apply hres_none; [exact Hwf | reflexivity]|].
    destruct (Nat.eqb (length (r_answers rec)) 0); [apply hres_none; [exact Hwf | reflexivity]|].
    step_alloc m Hwf hb m1 Hwf1 Hl1; [|apply hres_none; [exact Hwf1 | rewrite Hl1; reflexivity]].
    step_alloc m1 Hwf1 ab m2 Hwf2 Hl2.
    2:{ eapply hres_fail; [exact Hwf2 | reflexivity | rewrite Hl2, Hl1; cbn; perm_solve]. }
    destruct (r_questions rec) as [|q qs].
    { eapply hres_fail; [exact Hwf2 | reflexivity | rewrite Hl2, Hl1; cbn; perm_solve]. }
    step_alloc m2 Hwf2 nb m3 Hwf3 Hl3.
    2:{ eapply hres_fail; [exact Hwf3 | reflexivity | rewrite Hl3, Hl2, Hl1; cbn; perm_solve]. }
    step_alloc m3 Hwf3 alb m4 Hwf4 Hl4.
    2:{ eapply hres_fail; [exact Hwf4 | reflexivity | rewrite Hl4, Hl3, Hl2, Hl1; cbn; perm_solve]. }
    set (n := length (filter_map proj_ns (r_answers rec))).
    assert (Hn : (n < S (length (r_answers rec)))%nat) by (pose proof (filter_map_length proj_ns (r_answers rec)); unfold n; lia).
    destruct (fill_slots_spec n [] (S (length (r_answers rec))) m4 Hwf4 Hn) as (ok & new & m5 & E & Hwf5 & Hlen & Hl5 & _ & Hok & _).
    cbn [map app length] in E. rewrite E. cbn [bind].
    assert (Hb : hostent_blocks (mkHM hb (Some nb) (Some (alb, map Some new ++ repeat None (S (length (r_answers rec)) - length new))) (Some (ab, [None])))
                 = Ok ([nb] ++ (new ++ [alb]) ++ [ab] ++ [hb])).
    { unfold hostent_blocks. cbn [hm_aliases hm_addrs hm_name hm_blk]. rewrite array_blocks_filled by lia. reflexivity. }
    assert (Hp : Permutation (m_live m5) (([nb] ++ (new ++ [alb]) ++ [ab] ++ [hb]) ++ m_live m))
      by (rewrite Hl5, Hl4, Hl3, Hl2, Hl1; perm_solve).
    destruct ok; cbn [negb].
    - destruct (Nat.eqb n 0); [eapply hres_fail; eassumption | eapply hres_some; eassumption].
    - eapply hres_fail; eassumption.
  Qed.

  (* ares_parse_ptr_reply + ares_free_hostent *)
  Theorem ptr_ledger neg p addr_given m : wf m -> hres_ok m (ptr_mem fail neg p addr_given m).
  Proof.
    intros Hwf. unfold ptr_mem.
    destruct neg; [apply hres_none; [exact Hwf | reflexivity]|].
    destruct p as [s|rec]; [apply hres_none; [exact Hwf | reflexivity]|].
    destruct (r_questions rec) as [|q qs]; [apply hres_none; [exact Hwf | reflexivity]|].
    destruct (Nat.eqb (length (r_answers rec)) 0); [apply hres_none; [exact Hwf | reflexivity]|].
    step_alloc m Hwf hb m1 Hwf1 Hl1; [|apply hres_none; [exact Hwf1 | rewrite Hl1; reflexivity]].
    step_alloc m1 Hwf1 ab m2 Hwf2 Hl2.
    2:{ eapply hres_fail; [exact Hwf2 | reflexivity | rewrite Hl2, Hl1; cbn; perm_solve]. }
    (* the copy of the address *)
    assert (Ha : exists ok0 anew m3,
               (if addr_given then fill_slots fail 1 [None; None] 0 m2 else Ok (true, [None; None], m2)) =
               Ok (ok0, map Some anew ++ repeat None (2 - length anew), m3) /\ wf m3 /\ (length anew <= 1)%nat /\
               m_live m3 = rev anew ++ m_live m2).
    { destruct addr_given.
      - destruct (fill_slots_spec 1 [] 2 m2 Hwf2 ltac:(lia)) as (ok0 & anew & m3 & E & Hwf3 & Hlen & Hl3 & _).
        exists ok0, anew, m3. cbn [map app length repeat] in E. rewrite E. auto.
      - exists true, [], m2. cbn. auto. }
    destruct Ha as (ok0 & anew & m3 & E0 & Hwf3 & Hlen0 & Hl3). rewrite E0. cbn [bind].
    set (aslots := map Some anew ++ repeat None (2 - length anew)).
    assert (Hab : array_blocks (Some (ab, aslots)) = Ok (anew ++ [ab])) by (apply array_blocks_filled; lia).
    destruct ok0; cbn [negb].
    2:{ eapply hres_fail; [exact Hwf3 | unfold hostent_blocks; cbn [hm_aliases hm_addrs hm_name hm_blk]; rewrite Hab; reflexivity
                           | rewrite Hl3, Hl2, Hl1; cbn [array_blocks bind somes app]; perm_solve]. }
    step_alloc m3 Hwf3 alb m4 Hwf4 Hl4.
    2:{ eapply hres_fail; [exact Hwf4 | unfold hostent_blocks; cbn [hm_aliases hm_addrs hm_name hm_blk]; rewrite Hab; reflexivity
                           | rewrite Hl4, Hl3, Hl2, Hl1; cbn [array_blocks bind somes app]; perm_solve]. }
    set (n := length (filter_map proj_ptr (r_answers rec))).
    assert (Hn : (n < S (length (r_answers rec)))%nat) by (pose proof (filter_map_length proj_ptr (r_answers rec)); unfold n; lia).
    destruct (fill_slots_spec n [] (S (length (r_answers rec))) m4 Hwf4 Hn) as (ok & new & m5 & E & Hwf5 & Hlen & Hl5 & _ & Hok & _).
    cbn [map app length] in E. rewrite E. cbn [bind].
    assert (Hb : forall nm, hostent_blocks (mkHM hb nm (Some (alb, map Some new ++ repeat None (S (length (r_answers rec)) - length new))) (Some (ab, aslots)))
                 = Ok (somes [nm] ++ (new ++ [alb]) ++ (anew ++ [ab]) ++ [hb])).
    { intros nm. unfold hostent_blocks. cbn [hm_aliases hm_addrs hm_name hm_blk]. rewrite array_blocks_filled by lia. rewrite Hab. reflexivity. }
    assert (Hp : Permutation (m_live m5) ((somes [None] ++ (new ++ [alb]) ++ (anew ++ [ab]) ++ [hb]) ++ m_live m))
      by (rewrite Hl5, Hl4, Hl3, Hl2, Hl1; cbn [somes app]; perm_solve).
    destruct ok; cbn [negb].
    2:{ eapply hres_fail; [exact Hwf5 | apply Hb | exact Hp]. }
    destruct (Nat.eqb n 0); [eapply hres_fail; [exact Hwf5 | apply Hb | exact Hp]|].
    step_alloc m5 Hwf5 nb m6 Hwf6 Hl6.
    - eapply hres_some; [exact Hwf6 | apply Hb | rewrite Hl6, Hl5, Hl4, Hl3, Hl2, Hl1; cbn [somes app]; perm_solve].
    - eapply hres_fail; [exact Hwf6 | apply Hb | rewrite Hl6; exact Hp].
  Qed.

  (* ---------------- a / aaaa ---------------- *)
  Definition blocks_opt (h : option hostent_m) : outcome (list nat) :=
    match h with None => Ok [] | Some h => hostent_blocks h end.

  Definition hres2 (m : mem) (r : outcome (Z * option hostent_m * mem)) : Prop :=
    exists st h m' bs, r = Ok (st, h, m') /\ wf m' /\ (st <> ARES_SUCCESS -> h = None) /\
      blocks_opt h = Ok bs /\ Permutation (m_live m') (bs ++ m_live m).

  Lemma hres2_none m st mm : wf mm -> Permutation (m_live mm) (m_live m) -> hres2 m (Ok (st, None, mm)).
  Proof. intros Hw Hp. exists st, None, mm, []. auto. Qed.
  Lemma hres2_fail m st h bs mm : wf mm -> hostent_blocks h = Ok bs -> Permutation (m_live mm) (bs ++ m_live m) ->
    hres2 m (do m' <- free_hostent (Some h) mm; Ok (st, None, m')).
  Proof.
    intros Hw Hb Hp. destruct (free_hostent_ok h bs mm (m_live m) Hw Hb Hp) as (m' & E & Hw' & Hp').
    rewrite E. cbn [bind]. apply hres2_none; assumption.
  Qed.
  Lemma hres2_some m h bs mm : wf mm -> hostent_blocks h = Ok bs -> Permutation (m_live mm) (bs ++ m_live m) ->
    hres2 m (Ok (ARES_SUCCESS, Some h, mm)).
  Proof. intros Hw Hb Hp. exists ARES_SUCCESS, (Some h), mm, bs. split; [reflexivity|]. split; [exact Hw|]. split; [congruence|]. auto. Qed.

  Lemma hres2_ok m r : hres2 m r -> hres_ok m r.
  Proof.
    intros (st & h & m' & bs & E & Hw & Hn & Hb & Hp). exists st, h, m'. split; [exact E|]. split; [exact Hw|]. split; [exact Hn|].
    destruct h as [h|]; cbn [blocks_opt] in Hb.
    - destruct (free_hostent_ok h bs m' (m_live m) Hw Hb Hp) as (m'' & E' & Hw' & Hp'). eauto.
    - injection Hb as <-. exists m'. auto.
  Qed.

  Theorem a2h_ledger has_name nalias naddr m : wf m -> hres2 m (a2h_mem fail has_name nalias naddr m).
  Proof.
    intros Hwf. unfold a2h_mem.
    step_alloc m Hwf hb m1 Hwf1 Hl1; [|apply hres2_none; [exact Hwf1 | rewrite Hl1; reflexivity]].
    (* h_name *)
    assert (Hn : exists nok nm m2,
               (if has_name then match alloc fail m1 with (Some b, m') => (true, Some b, m') | (None, m') => (false, None, m') end
                else (true, None, m1)) = (nok, nm, m2) /\ wf m2 /\ m_live m2 = somes [nm] ++ m_live m1).
    { destruct has_name.
      - step_alloc m1 Hwf1 nb m2 Hwf2 Hl2; eexists _, _, _; (split; [reflexivity|]); split; auto.
      - eexists _, _, _. split; [reflexivity|]. auto. }
    destruct Hn as (nok & nm & m2 & En & Hwf2 & Hl2). rewrite En.
    destruct nok; cbn [negb].
    2:{ eapply hres2_fail; [exact Hwf2 | reflexivity | rewrite Hl2, Hl1; cbn [hm_name hm_blk hm_aliases hm_addrs array_blocks bind app]; perm_solve]. }
    step_alloc m2 Hwf2 alb m3 Hwf3 Hl3.
    2:{ eapply hres2_fail; [exact Hwf3 | reflexivity | rewrite Hl3, Hl2, Hl1; cbn [hm_name hm_blk hm_aliases hm_addrs array_blocks bind app]; perm_solve]. }
    destruct (fill_slots_spec nalias [] (S nalias) m3 Hwf3 ltac:(lia)) as (ok & anew & m4 & E & Hwf4 & Hlen & Hl4 & _ & Hok & _).
    cbn [map app length] in E. rewrite E. cbn [bind].
    set (aslots := map Some anew ++ repeat None (S nalias - length anew)).
    assert (Hab : array_blocks (Some (alb, aslots)) = Ok (anew ++ [alb])) by (apply array_blocks_filled; lia).
    destruct ok; cbn [negb].
    2:{ eapply hres2_fail; [exact Hwf4 | unfold hostent_blocks; cbn [hm_aliases hm_addrs hm_name hm_blk]; rewrite Hab; reflexivity
                            | rewrite Hl4, Hl3, Hl2, Hl1; cbn [hm_name hm_blk hm_aliases hm_addrs array_blocks bind app]; perm_solve]. }
    step_alloc m4 Hwf4 adb m5 Hwf5 Hl5.
    2:{ eapply hres2_fail; [exact Hwf5 | unfold hostent_blocks; cbn [hm_aliases hm_addrs hm_name hm_blk]; rewrite Hab; reflexivity
                            | rewrite Hl5, Hl4, Hl3, Hl2, Hl1; cbn [hm_name hm_blk hm_aliases hm_addrs array_blocks bind app]; perm_solve]. }
    destruct (fill_slots_spec naddr [] (S naddr) m5 Hwf5 ltac:(lia)) as (ok2 & dnew & m6 & E2 & Hwf6 & Hlen2 & Hl6 & _ & Hok2 & _).
    cbn [map app length] in E2. rewrite E2. cbn [bind].
    assert (Hb : hostent_blocks (mkHM hb nm (Some (alb, aslots)) (Some (adb, map Some dnew ++ repeat None (S naddr - length dnew))))
                 = Ok (somes [nm] ++ (anew ++ [alb]) ++ (dnew ++ [adb]) ++ [hb])).
    { unfold hostent_blocks. cbn [hm_aliases hm_addrs hm_name hm_blk]. rewrite Hab, array_blocks_filled by lia. reflexivity. }
    assert (Hp : Permutation (m_live m6) ((somes [nm] ++ (anew ++ [alb]) ++ (dnew ++ [adb]) ++ [hb]) ++ m_live m))
      by (rewrite Hl6, Hl5, Hl4, Hl3, Hl2, Hl1; perm_solve).
    destruct ok2; cbn [negb].
    2:{ eapply hres2_fail; eassumption. }
    destruct (Nat.eqb naddr 0 && Nat.eqb nalias 0); [eapply hres2_fail; eassumption | eapply hres2_some; eassumption].
  Qed.

  Lemma pia_loop_mem_spec rrs : forall cn nd m ok cn' nd' m' L, wf m ->
    Permutation (m_live m) (flat_map node_blocks cn ++ flat_map node_blocks nd ++ L) ->
    pia_loop_mem fail rrs cn nd m = (ok, cn', nd', m') ->
    wf m' /\ Permutation (m_live m') (flat_map node_blocks cn' ++ flat_map node_blocks nd' ++ L).
  Proof.
    induction rrs as [|r rest IH]; intros cn nd m ok cn' nd' m' L Hwf Hp; cbn [pia_loop_mem].
    - intros [= <- <- <- <-]. auto.
    - destruct (pia_event r) as [ev|]; [|apply IH; assumption].
      step_alloc m Hwf b m1 Hwf1 Hl1.
      2:{ intros [= <- <- <- <-]. split; [exact Hwf1 | rewrite Hl1; exact Hp]. }
      destruct (alloc_fields fail (match ev with EvCname => 2%nat | EvNode => 1%nat end) m1 []) as [[okf fs] m2] eqn:Ef.
      assert (Hp1 : Permutation (m_live m1) (somes [] ++ (b :: flat_map node_blocks cn ++ flat_map node_blocks nd ++ L)))
        by (rewrite Hl1; cbn [somes app]; perm_solve).
      destruct (alloc_fields_spec _ m1 [] okf fs m2 _ Hwf1 Hp1 Ef) as (Hwf2 & Hp2 & _ & _).
      assert (Hp3 : Permutation (m_live m2)
                 (flat_map node_blocks (match ev with EvCname => cn ++ [mkLNode b fs] | EvNode => cn end) ++
                  flat_map node_blocks (match ev with EvNode => nd ++ [mkLNode b fs] | EvCname => nd end) ++ L)).
      { destruct ev; rewrite flat_map_app; cbn [flat_map]; change (node_blocks (mkLNode b fs)) with (somes fs ++ [b]); perm_solve. }
      destruct okf; [intros Hrun; exact (IH _ _ m2 _ _ _ _ L Hwf2 Hp3 Hrun)|].
      intros [= <- <- <- <-]. auto.
  Qed.

  Theorem pia_ledger rec m : wf m ->
    exists st ai m', pia_mem fail rec m = Ok (st, ai, m') /\ wf m' /\
      Permutation (m_live m') (ai_blocks ai ++ m_live m) /\ (st <> ARES_SUCCESS -> ai_blocks ai = []).
  Proof.
    intros Hwf. unfold pia_mem.
    assert (Hbase : forall st mm, wf mm -> Permutation (m_live mm) (m_live m) ->
              exists st0 ai m', Ok (st, mkAIM [] [] None, mm) = Ok (st0, ai, m') /\ wf m' /\
                Permutation (m_live m') (ai_blocks ai ++ m_live m) /\ (st0 <> ARES_SUCCESS -> ai_blocks ai = [])).
    { intros st mm Hw Hp. exists st, (mkAIM [] [] None), mm. cbn. auto. }
    destruct (r_questions rec); [apply Hbase; [exact Hwf | reflexivity]|].
    destruct (Nat.eqb (length (r_answers rec)) 0); [apply Hbase; [exact Hwf | reflexivity]|].
    destruct (pia_loop_mem fail (r_answers rec) [] [] m) as [[[ok cn] nd] m1] eqn:El.
    destruct (pia_loop_mem_spec _ [] [] m ok cn nd m1 (m_live m) Hwf (Permutation_refl _) El) as (Hwf1 & Hp1).
    assert (Hfree : forall mm nmb, wf mm -> Permutation (m_live mm) (ai_blocks (mkAIM cn nd nmb) ++ m_live m) ->
              exists st0 ai m', (do m' <- free_ai (mkAIM cn nd nmb) mm; Ok (ARES_ENOMEM, mkAIM [] [] None, m')) = Ok (st0, ai, m') /\ wf m' /\
                Permutation (m_live m') (ai_blocks ai ++ m_live m) /\ (st0 <> ARES_SUCCESS -> ai_blocks ai = [])).
    { intros mm nmb Hw Hp. unfold free_ai. destruct (free_many_ok _ mm (m_live m) Hw Hp) as (m' & E & Hw' & Hp' & _).
      rewrite E. cbn [bind]. apply Hbase; assumption. }
    assert (Hp1' : Permutation (m_live m1) (ai_blocks (mkAIM cn nd None) ++ m_live m)).
    { unfold ai_blocks. cbn [am_cnames am_nodes am_name somes]. rewrite app_nil_r, <- app_assoc. exact Hp1. }
    destruct ok; cbn [negb]; [|apply Hfree; assumption].
    destruct (is_nil cn && is_nil nd) eqn:Enil.
    { apply Hbase; [exact Hwf1|]. destruct cn; [|discriminate Enil]. destruct nd; [|discriminate Enil]. exact Hp1. }
    step_alloc m1 Hwf1 nb m2 Hwf2 Hl2.
    - exists ARES_SUCCESS, (mkAIM cn nd (Some nb)), m2. split; [reflexivity|]. split; [exact Hwf2|]. split; [|congruence].
      unfold ai_blocks in *. cbn [am_cnames am_nodes am_name somes] in *. rewrite Hl2. perm_solve.
    - apply Hfree; [exact Hwf2 | rewrite Hl2; exact Hp1'].
  Qed.

  (* ares_parse_a_reply / ares_parse_aaaa_reply + ares_free_hostent: for every record, every
     request shape and EVERY sequence of allocator answers *)
  Theorem addr_reply_ledger family neg p want_host m : wf m -> hres_ok m (addr_reply_mem fail family neg p want_host m).
  Proof.
    intros Hwf. unfold addr_reply_mem.
    destruct neg; [apply hres_none; [exact Hwf | reflexivity]|].
    destruct p as [s|rec]; [apply hres_none; [exact Hwf | reflexivity]|].
    destruct (pia_ledger rec m Hwf) as (st1 & ai & m1 & E1 & Hwf1 & Hp1 & Hnil). rewrite E1. cbn [bind].
    destruct (negb (st1 =? ARES_SUCCESS) && negb (st1 =? ARES_ENODATA)) eqn:Est.
    { apply hres_none; [exact Hwf1|]. rewrite Hnil in Hp1; [exact Hp1|]. intros ->. discriminate Est. }
    destruct want_host.
    - destruct (a2h_ledger (st1 =? ARES_SUCCESS) (length (am_cnames ai))
                           (if st1 =? ARES_SUCCESS then count_fam family (r_answers rec) else 0%nat) m1 Hwf1)
        as (st2 & h & m2 & bs & E2 & Hwf2 & Hn2 & Hb2 & Hp2).
      rewrite E2. cbn [bind].
      assert (Hp2' : Permutation (m_live m2) (ai_blocks ai ++ (bs ++ m_live m))) by perm_solve.
      unfold free_ai. destruct (free_many_ok _ m2 (bs ++ m_live m) Hwf2 Hp2') as (m3 & E3 & Hwf3 & Hp3 & _).
      rewrite E3. cbn [bind]. apply hres2_ok.
      exists (compat st2), h, m3, bs. split; [reflexivity|]. split; [exact Hwf3|]. split; [|auto].
      intros Hc. apply Hn2. intros ->. apply Hc. reflexivity.
    - unfold free_ai. destruct (free_many_ok _ m1 (m_live m) Hwf1 Hp1) as (m3 & E3 & Hwf3 & Hp3 & _).
      rewrite E3. cbn [bind]. apply hres_none; assumption.
  Qed.
End Ledger.

Lemma items_count_mx rrs : length (flat_map mx_items rrs) = length (filter_map proj_mx rrs).
Proof. induction rrs as [|r rrs IH]; [reflexivity|]. cbn [flat_map filter_map]. rewrite app_length, IH. unfold mx_items. destruct (proj_mx r); reflexivity. Qed.
Lemma items_count_txt rrs : length (flat_map txt_items rrs) = length (flat_map (proj_txt false) rrs).
Proof. induction rrs as [|r rrs IH]; [reflexivity|]. cbn [flat_map]. rewrite !app_length, IH. unfold txt_items. rewrite map_length. reflexivity. Qed.

(* ------------------------------------------------------------------------------------ *)
(* from an empty ledger: after the matching free function the ledger is empty again      *)
(* ------------------------------------------------------------------------------------ *)
Definition mem0 : mem := mkMem 0 [].
Lemma wf_mem0 : wf mem0. Proof. split; constructor. Qed.
Lemma perm_nil_eq (l : list nat) : Permutation l [] -> l = [].
Proof. intros H. apply Permutation_sym in H. apply Permutation_nil in H. exact H. Qed.

Theorem lists_release fail items_of neg p :
  exists st out m', list_parser_mem fail items_of neg p mem0 = Ok (st, out, m') /\
    (st <> ARES_SUCCESS -> out = [] /\ m_live m' = []) /\
    exists m'', free_data out m' = Ok m'' /\ m_live m'' = [].
Proof.
  destruct (list_parser_ledger fail items_of neg p mem0 wf_mem0) as (st & out & m' & E & _ & Hp & Hn & m'' & Ef & _ & Hp'').
  exists st, out, m'. split; [exact E|]. split.
  - intros Hs. rewrite (Hn Hs) in *. split; [reflexivity|]. apply perm_nil_eq. exact Hp.
  - exists m''. split; [exact Ef | apply perm_nil_eq; exact Hp''].
Qed.

Theorem soa_release fail neg p :
  exists st out m', soa_mem fail neg p mem0 = Ok (st, out, m') /\
    (st <> ARES_SUCCESS -> out = None /\ m_live m' = []) /\
    exists m'', free_data (match out with Some n => [n] | None => [] end) m' = Ok m'' /\ m_live m'' = [].
Proof.
  destruct (soa_ledger fail neg p mem0 wf_mem0) as (st & out & m' & E & _ & Hp & Hn & m'' & Ef & Hp'').
  exists st, out, m'. split; [exact E|]. split.
  - intros Hs. rewrite (Hn Hs) in *. split; [reflexivity|]. apply perm_nil_eq. exact Hp.
  - exists m''. split; [exact Ef | apply perm_nil_eq; exact Hp''].
Qed.

Definition released (r : outcome (Z * option hostent_m * mem)) : Prop :=
  exists st h m', r = Ok (st, h, m') /\ (st <> ARES_SUCCESS -> h = None /\ m_live m' = []) /\
    exists m'', free_hostent h m' = Ok m'' /\ m_live m'' = [].

Lemma hres_released r : hres_ok mem0 r -> released r.
Proof.
  intros (st & h & m' & E & _ & Hn & m'' & Ef & _ & Hp). exists st, h, m'. split; [exact E|]. split.
  - intros Hs. specialize (Hn Hs). subst h. split; [reflexivity|]. cbn in Ef. injection Ef as <-. apply perm_nil_eq. exact Hp.
  - exists m''. split; [exact Ef | apply perm_nil_eq; exact Hp].
Qed.

Theorem ns_release fail neg p : released (ns_mem fail neg p mem0).
Proof. apply hres_released, ns_ledger, wf_mem0. Qed.
Theorem ptr_release fail neg p addr_given : released (ptr_mem fail neg p addr_given mem0).
Proof. apply hres_released, ptr_ledger, wf_mem0. Qed.
Theorem addr_release fail family neg p want_host : released (addr_reply_mem fail family neg p want_host mem0).
Proof. apply hres_released, addr_reply_ledger, wf_mem0. Qed.

(* non-vacuity: third allocation fails while parsing two MX records *)
Example ex_mx_enomem :
  list_parser_mem (fun k => Nat.eqb k 2) mx_items false
    (Parsed (mkRec 0 [mkQ [119] ARES_REC_TYPE_MX ARES_CLASS_IN]
                   [mkRR [119] ARES_CLASS_IN 60 (RD_MX 10 [109]); mkRR [119] ARES_CLASS_IN 60 (RD_MX 20 [110])])) mem0
  = Ok (ARES_ENOMEM, [], mkMem 3 []).
Proof. vm_compute. reflexivity. Qed.
