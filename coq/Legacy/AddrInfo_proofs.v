(* Proofs for the function-level part of C13. *)
From Coq Require Import Permutation Sorted.
From CAres.Legacy Require Import Rec Legacy Legacy_spec Legacy_proofs AddrInfo.
From CAres.Gen Require Import Consts.
Local Open Scope Z_scope.
Notation filter_map := Legacy_spec.filter_map.

(* ------------------------------------------------------------------------------------ *)
(* ares_parse_into_addrinfo, general form: any port, either cname_only setting, appending *)
(* to an addrinfo that may already hold nodes                                             *)
(* ------------------------------------------------------------------------------------ *)
Lemma pia_general rec q qs cno port ai : r_questions rec = q :: qs ->
  parse_into_addrinfo rec cno port ai =
  let nodes := spec_nodes port (r_answers rec) in
  let cn := filter_map proj_cname (r_answers rec) in
  let host := host_after (r_answers rec) (q_name q) in
  if is_nil nodes && (is_nil cn || cno) then (ARES_ENODATA, ai)
  else (ARES_SUCCESS,
        mkAI (match ai_name ai with
              | None => Some host
              | Some n => if strcaseeq n host then Some n else Some host
              end)
             (ai_nodes ai ++ nodes) (ai_cnames ai ++ spec_cnames (r_answers rec))).
Proof.
  intros Hq. unfold parse_into_addrinfo, spec_nodes, spec_cnames. rewrite Hq.
  destruct (r_answers rec) as [|r rest] eqn:E; [reflexivity|].
  set (ans := r :: rest). change (Nat.eqb (length ans) 0) with false. cbv iota.
  rewrite pia_loop_spec. cbn [p_host p_a p_aaaa p_cname p_cnames p_nodes orb app].
  rewrite <- negb_orb. rewrite (existsb_nodes port).
  cbv zeta.
  destruct (filter_map (node_of port) ans) as [|n nodes]; destruct (filter_map proj_cname ans) as [|c cn];
    destruct cno; cbn [is_nil negb andb orb map]; rewrite ?app_nil_r; reflexivity.
Qed.

(* exactly the A/AAAA records of class IN, in answer order, each with the caller's port and
   its record TTL - appended; or nothing changes *)
Theorem pia_exact rec q qs cno port ai st ai' : r_questions rec = q :: qs ->
  parse_into_addrinfo rec cno port ai = (st, ai') ->
  (st = ARES_SUCCESS /\ ai_nodes ai' = ai_nodes ai ++ spec_nodes port (r_answers rec) /\
   ai_cnames ai' = ai_cnames ai ++ spec_cnames (r_answers rec)) \/
  (st = ARES_ENODATA /\ ai' = ai /\ spec_nodes port (r_answers rec) = []).
Proof.
  intros Hq. rewrite (pia_general rec q qs cno port ai Hq). cbv zeta.
  destruct (spec_nodes port (r_answers rec)) as [|n nodes] eqn:En; cbn [is_nil andb].
  - destruct (is_nil _ || cno); intros [= <- <-]; [right | left]; auto.
  - intros [= <- <-]. left. auto.
Qed.

Lemma spec_nodes_content port rrs nd : In nd (spec_nodes port rrs) <->
  exists r, In r rrs /\ is_in r = true /\ n_port nd = port /\ n_ttl nd = ttl_to_int (rr_ttl r) /\
            ((rr_data r = RD_A (n_addr nd) /\ n_family nd = LEG_AF_INET) \/
             (rr_data r = RD_AAAA (n_addr nd) /\ n_family nd = LEG_AF_INET6)).
Proof.
  unfold spec_nodes. induction rrs as [|r rest IH]; cbn [filter_map In].
  - split; [contradiction | intros (r & [] & _)].
  - assert (Hn : forall x, node_of port r = Some x ->
                 is_in r = true /\ n_port x = port /\ n_ttl x = ttl_to_int (rr_ttl r) /\
                 ((rr_data r = RD_A (n_addr x) /\ n_family x = LEG_AF_INET) \/
                  (rr_data r = RD_AAAA (n_addr x) /\ n_family x = LEG_AF_INET6))).
    { unfold node_of. destruct (is_in r); [|discriminate]. destruct (rr_data r); try discriminate;
        intros x [= <-]; cbn; auto 10. }
    assert (Hc : forall x, is_in r = true -> n_port x = port -> n_ttl x = ttl_to_int (rr_ttl r) ->
                 ((rr_data r = RD_A (n_addr x) /\ n_family x = LEG_AF_INET) \/
                  (rr_data r = RD_AAAA (n_addr x) /\ n_family x = LEG_AF_INET6)) -> node_of port r = Some x).
    { intros [f a p t] Hi Hp Ht Hd. cbn in *. unfold node_of. rewrite Hi.
      destruct Hd as [[Hd Hf] | [Hd Hf]]; rewrite Hd; subst; reflexivity. }
    destruct (node_of port r) as [x|] eqn:Ex; cbn [In]; split.
    + intros [<- | Hin].
      * exists r. split; [left; reflexivity | apply Hn; reflexivity].
      * apply IH in Hin. destruct Hin as (r' & Hr' & H). exists r'. split; [right; exact Hr' | exact H].
    + intros (r' & [<- | Hr'] & Hi & Hp & Ht & Hd).
      * left. specialize (Hc nd Hi Hp Ht Hd). congruence.
      * right. apply IH. exists r'. auto.
    + intros Hin. apply IH in Hin. destruct Hin as (r' & Hr' & H). exists r'. split; [right; exact Hr' | exact H].
    + intros (r' & [<- | Hr'] & Hi & Hp & Ht & Hd).
      * specialize (Hc nd Hi Hp Ht Hd). congruence.
      * apply IH. exists r'. auto.
Qed.

Lemma nth_error_firstn_lt' {A} (l : list A) n i : (i < n)%nat -> nth_error (firstn n l) i = nth_error l i.
Proof.
  revert l i; induction n as [|n IH]; intros l i Hi; [lia|].
  destruct l as [|x l]; [destruct i; reflexivity|].
  destruct i as [|i]; simpl; [reflexivity|]. apply IH; lia.
Qed.

Lemma nth_error_skipn' {A} (l : list A) n i : nth_error (skipn n l) i = nth_error l (n + i).
Proof.
  revert l; induction n as [|n IH]; intros l; simpl; [reflexivity|].
  destruct l as [|x l]; [destruct i; reflexivity|]. apply IH.
Qed.

(* ------------------------------------------------------------------------------------ *)
(* ares_sortaddrinfo: relinking                                                          *)
(* ------------------------------------------------------------------------------------ *)
Lemma set_next_ok heap node v : (node < length heap)%nat ->
  exists h, set_next heap node v = Ok h /\ length h = length heap /\
            nth_error h node = Some v /\ (forall a, a <> node -> nth_error h a = nth_error heap a).
Proof.
  intros Hlt. unfold set_next. destruct (Nat.ltb_spec node (length heap)) as [_|]; [|lia].
  eexists. split; [reflexivity|].
  assert (Hfl : length (firstn node heap) = node) by (rewrite firstn_length; lia).
  split; [|split].
  - rewrite app_length, Hfl. cbn [length]. rewrite skipn_length. lia.
  - rewrite nth_error_app2 by lia. rewrite Hfl, Nat.sub_diag. reflexivity.
  - intros a Ha. destruct (Nat.lt_ge_cases a node) as [Hl|Hg].
    + rewrite nth_error_app1 by lia. apply nth_error_firstn_lt'. exact Hl.
    + rewrite nth_error_app2 by lia. rewrite Hfl.
      destruct (a - node)%nat as [|d] eqn:Ed; [lia|]. cbn [nth_error].
      rewrite nth_error_skipn'. f_equal. lia.
Qed.

Lemma relink_step a b r heap :
  relink_loop (a :: b :: r) heap = (do h <- set_next heap a (Some b); relink_loop (b :: r) h).
Proof. reflexivity. Qed.

Lemma relink_props elems : forall heap, (forall e, In e elems -> (e < length heap)%nat) ->
  exists h, relink_loop elems heap = Ok h /\ length h = length heap /\
            (forall a, ~ In a elems -> nth_error h a = nth_error heap a).
Proof.
  induction elems as [|a rest IH]; intros heap Hb.
  - exists heap. auto.
  - destruct (set_next_ok heap a (hd_error rest) (Hb a (or_introl eq_refl))) as (h1 & E1 & L1 & _ & U1).
    destruct rest as [|b rest'].
    + cbn [relink_loop hd_error] in *. exists h1. split; [exact E1|]. split; [exact L1|].
      intros x Hx. apply U1. intros ->. apply Hx. left; reflexivity.
    + rewrite relink_step. cbn [hd_error] in E1. rewrite E1. cbn [bind].
      destruct (IH h1) as (h & E & L & U).
      { intros e He. rewrite L1. apply Hb. right; exact He. }
      exists h. split; [exact E|]. split; [lia|].
      intros x Hx. rewrite U by (intros Hin; apply Hx; right; exact Hin).
      apply U1. intros ->. apply Hx. left; reflexivity.
Qed.

Lemma relink_walk elems : forall heap h fuel, NoDup elems ->
  (forall e, In e elems -> (e < length heap)%nat) ->
  relink_loop elems heap = Ok h -> (length elems <= fuel)%nat ->
  walk fuel (hd_error elems) h = Ok elems.
Proof.
  induction elems as [|a rest IH]; intros heap h fuel Hnd Hb E Hf.
  - destruct fuel; reflexivity.
  - cbn [hd_error]. destruct fuel as [|f]; [cbn [length] in Hf; lia|]. cbn [walk].
    inversion Hnd as [|? ? Hna Hnd']; subst.
    destruct (set_next_ok heap a (hd_error rest) (Hb a (or_introl eq_refl))) as (h1 & E1 & L1 & G1 & U1).
    destruct rest as [|b rest'].
    + cbn [relink_loop hd_error] in *. rewrite E1 in E. injection E as <-.
      rewrite G1. destruct f; reflexivity.
    + rewrite relink_step in E. cbn [hd_error] in E1, G1. rewrite E1 in E. cbn [bind] in E.
      destruct (relink_props (b :: rest') h1) as (h' & E' & _ & U').
      { intros e He. rewrite L1. apply Hb. right; exact He. }
      rewrite E' in E. injection E as <-.
      rewrite (U' a Hna), G1.
      assert (Hw : walk f (hd_error (b :: rest')) h' = Ok (b :: rest')).
      { apply (IH h1 h' f Hnd'); [| exact E' | cbn [length] in *; lia].
        intros e He. rewrite L1. apply Hb. right; exact He. }
      cbn [hd_error] in Hw. rewrite Hw. reflexivity.
Qed.

Section SortAddrinfoProofs.
  Variable qsort_order : nat -> list nat.
  Hypothesis qsort_perm : forall n, Permutation (seq 0 n) (qsort_order n).

  (* after ares_sortaddrinfo the list reachable from the sentinel is exactly the sorted
     element array: same nodes, none lost, none twice, properly terminated *)
  Theorem sortaddrinfo_permutation n : (0 < n)%nat ->
    exists hd heap l, sortaddrinfo qsort_order n = Ok (ARES_SUCCESS, hd, heap) /\
                      walk (S n) hd heap = Ok l /\ Permutation (seq 0 n) l /\ l = qsort_order n.
  Proof.
    intros Hn. unfold sortaddrinfo. destruct (Nat.eqb_spec n 0) as [|_]; [lia|].
    pose proof (qsort_perm n) as Hp.
    assert (Hlen : length (chain_heap n) = n) by (unfold chain_heap; rewrite map_length, seq_length; reflexivity).
    assert (Hb : forall e, In e (qsort_order n) -> (e < length (chain_heap n))%nat).
    { intros e He. rewrite Hlen. apply Permutation_sym in Hp. apply (Permutation_in _ Hp) in He.
      apply in_seq in He. lia. }
    destruct (relink_props (qsort_order n) (chain_heap n) Hb) as (h & E & _ & _).
    rewrite E. cbn [bind].
    exists (hd_error (qsort_order n)), h, (qsort_order n). split; [reflexivity|].
    split; [|split; [exact Hp | reflexivity]].
    apply (relink_walk _ (chain_heap n) h); [| exact Hb | exact E |].
    - apply (Permutation_NoDup Hp). apply seq_NoDup.
    - rewrite <- (Permutation_length Hp), seq_length. lia.
  Qed.

  Theorem sortaddrinfo_empty : sortaddrinfo qsort_order 0 = Ok (ARES_ENODATA, None, []).
  Proof. reflexivity. Qed.
End SortAddrinfoProofs.

(* the heap model of the incoming list is adequate: walking it yields nodes 0 .. n-1 *)
Lemma nth_error_seq' start len i : (i < len)%nat -> nth_error (seq start len) i = Some (start + i)%nat.
Proof.
  revert start i; induction len as [|len IH]; intros start i Hi; [lia|].
  destruct i as [|i]; cbn [seq nth_error]; [f_equal; lia|]. rewrite IH by lia. f_equal; lia.
Qed.

Lemma chain_walk n : forall k i, (i + k = n)%nat -> (0 < k)%nat ->
  walk k (Some i) (chain_heap n) = Ok (seq i k).
Proof.
  induction k as [|k IH]; intros i Hi Hk; [lia|].
  cbn [walk]. unfold chain_heap at 1.
  rewrite (map_nth_error _ i (seq 0 n) (nth_error_seq' 0 n i ltac:(lia))). cbn [Nat.add].
  fold (chain_heap n).
  destruct (Nat.eqb_spec (S i) n) as [He|Hne].
  - assert (k = 0)%nat by lia. subst k. reflexivity.
  - rewrite (IH (S i)) by lia. reflexivity.
Qed.

(* ------------------------------------------------------------------------------------ *)
(* sortlist insertion sort                                                               *)
(* ------------------------------------------------------------------------------------ *)
Lemma set_at_mid {A} (l1 : list A) x l2 v : set_at (l1 ++ x :: l2) (length l1) v = Ok (l1 ++ v :: l2).
Proof.
  unfold set_at. rewrite app_length. cbn [length].
  destruct (Nat.ltb_spec (length l1) (length l1 + S (length l2))) as [_|]; [|lia].
  rewrite firstn_app, Nat.sub_diag, firstn_all. cbn [firstn]. rewrite app_nil_r.
  replace (S (length l1)) with (length l1 + 1)%nat by lia.
  rewrite skipn_app, skipn_all2 by lia.
  replace (length l1 + 1 - length l1)%nat with 1%nat by lia. reflexivity.
Qed.

Lemma nth_error_mid {A} (l1 : list A) x l2 : nth_error (l1 ++ x :: l2) (length l1) = Some x.
Proof. rewrite nth_error_app2 by lia. rewrite Nat.sub_diag. reflexivity. Qed.

Section SortListProofs.
  Variable idx : bin -> nat.
  Definition le_idx (a b : bin) : Prop := (idx a <= idx b)%nat.

  (* the inner loop shifts the elements with a larger index one slot to the right and stops
     behind the first element (from the right) whose index is not larger *)
  Lemma sort_inner_spec ind1 A : forall g B,
    exists A1 A2 g', A = A1 ++ A2 /\
      sort_inner idx (A ++ g :: B) ind1 (length A) = Ok (A1 ++ g' :: A2 ++ B, length A1) /\
      Forall (fun x => (ind1 < idx x)%nat) A2 /\
      (A1 = [] \/ exists A1' z, A1 = A1' ++ [z] /\ (idx z <= ind1)%nat).
  Proof.
    induction A as [|a2 A' IH] using rev_ind; intros g B.
    - exists [], [], g. cbn. auto.
    - rewrite app_length. cbn [length]. replace (length A' + 1)%nat with (S (length A')) by lia.
      cbn [sort_inner]. rewrite <- app_assoc. cbn [app]. rewrite nth_error_mid.
      destruct (Nat.leb_spec (idx a2) ind1) as [Hle|Hgt].
      + exists (A' ++ [a2]), [], g. rewrite app_nil_r, app_length. cbn [length app].
        replace (length A' + 1)%nat with (S (length A')) by lia.
        rewrite <- app_assoc. cbn [app]. split; [reflexivity|]. split; [reflexivity|].
        split; [constructor|]. right. exists A', a2. auto.
      + replace (A' ++ a2 :: g :: B) with ((A' ++ [a2]) ++ g :: B) by (rewrite <- app_assoc; reflexivity).
        replace (S (length A')) with (length (A' ++ [a2])) by (rewrite app_length; cbn; lia).
        rewrite set_at_mid. cbn [bind]. rewrite <- app_assoc. cbn [app].
        destruct (IH a2 (a2 :: B)) as (A1 & A2 & g' & EA & ES & HF & HL).
        exists A1, (A2 ++ [a2]), g'. rewrite ES. split; [rewrite EA, app_assoc; reflexivity|].
        split; [rewrite <- app_assoc; reflexivity|].
        split; [apply Forall_app; split; [exact HF | constructor; [lia | constructor]] | exact HL].
  Qed.

  Lemma ss_app_inv (l1 l2 : list bin) : StronglySorted le_idx (l1 ++ l2) ->
    StronglySorted le_idx l1 /\ StronglySorted le_idx l2 /\ (forall x y, In x l1 -> In y l2 -> le_idx x y).
  Proof.
    induction l1 as [|a l1 IH]; cbn [app]; intros H.
    - split; [constructor|]. split; [exact H|]. intros x y [].
    - inversion H as [|? ? Hs Hf]; subst. destruct (IH Hs) as (S1 & S2 & Hc).
      rewrite Forall_app in Hf. destruct Hf as [Hf1 Hf2].
      split; [constructor; assumption|]. split; [exact S2|].
      intros x y [<- | Hx] Hy; [rewrite Forall_forall in Hf2; apply Hf2; exact Hy | apply Hc; assumption].
  Qed.

  Lemma ss_app (l1 l2 : list bin) : StronglySorted le_idx l1 -> StronglySorted le_idx l2 ->
    (forall x y, In x l1 -> In y l2 -> le_idx x y) -> StronglySorted le_idx (l1 ++ l2).
  Proof.
    induction l1 as [|a l1 IH]; cbn [app]; intros S1 S2 Hc; [exact S2|].
    inversion S1 as [|? ? Hs Hf]; subst. constructor.
    - apply IH; [exact Hs | exact S2 | intros x y Hx Hy; apply Hc; [right; exact Hx | exact Hy]].
    - apply Forall_app. split; [exact Hf|]. apply Forall_forall. intros y Hy. apply Hc; [left; reflexivity | exact Hy].
  Qed.

  (* one round of the outer loop inserts arr[i1] into the sorted prefix *)
  Lemma sort_round S a1 R : StronglySorted le_idx S ->
    exists S', (do r <- sort_inner idx (S ++ a1 :: R) (idx a1) (length S);
                set_at (fst r) (snd r) a1) = Ok (S' ++ R) /\
               length S' = Datatypes.S (length S) /\ StronglySorted le_idx S' /\ Permutation (S ++ [a1]) S'.
  Proof.
    intros HS.
    destruct (sort_inner_spec (idx a1) S a1 R) as (A1 & A2 & g' & EA & ES & HF & HL).
    rewrite ES. cbn [bind fst snd]. rewrite set_at_mid.
    exists (A1 ++ a1 :: A2). split; [rewrite <- app_assoc; reflexivity|].
    subst S. split; [rewrite !app_length; cbn [length]; lia|].
    destruct (ss_app_inv _ _ HS) as (S1 & S2 & Hc).
    split.
    - apply ss_app; [exact S1 | |].
      + constructor; [exact S2|]. apply Forall_forall. intros y Hy.
        rewrite Forall_forall in HF. unfold le_idx. specialize (HF y Hy). lia.
      + intros x y Hx [<- | Hy]; [|apply Hc; assumption].
        destruct HL as [-> | (A1' & z & -> & Hz)]; [destruct Hx|].
        apply in_app_or in Hx. destruct Hx as [Hx | [<- | []]]; [|exact Hz].
        destruct (ss_app_inv _ _ S1) as (_ & _ & Hc1).
        unfold le_idx in *. specialize (Hc1 x z Hx (or_introl eq_refl)). lia.
    - rewrite <- app_assoc. apply Permutation_app_head. apply Permutation_sym.
      change (a1 :: A2) with ([a1] ++ A2). apply Permutation_app_comm.
  Qed.

  Lemma sort_outer_spec R : forall fuel S, (length R <= fuel)%nat -> StronglySorted le_idx S ->
    exists S', sort_outer idx fuel (S ++ R) (length S) = Ok S' /\
               StronglySorted le_idx S' /\ Permutation (S ++ R) S'.
  Proof.
    induction R as [|a1 R IH]; intros fuel S Hf HS.
    - exists S. rewrite app_nil_r.
      assert (E : nth_error S (length S) = None) by (apply nth_error_None; lia).
      destruct fuel; cbn [sort_outer]; rewrite E; auto.
    - destruct fuel as [|f]; [cbn [length] in Hf; lia|].
      cbn [sort_outer]. rewrite nth_error_mid.
      destruct (sort_round S a1 R HS) as (S1 & E1 & L1 & SS1 & P1).
      destruct (sort_inner idx (S ++ a1 :: R) (idx a1) (length S)) as [r| |]; cbn [bind] in E1 |- *; try discriminate.
      rewrite E1. cbn [bind]. rewrite <- L1.
      destruct (IH f S1) as (S' & E' & SS' & P'); [cbn [length] in Hf; lia | exact SS1|].
      exists S'. split; [exact E'|]. split; [exact SS'|].
      eapply Permutation_trans; [|exact P'].
      replace (S ++ a1 :: R) with ((S ++ [a1]) ++ R) by (rewrite <- app_assoc; reflexivity).
      apply Permutation_app_tail. exact P1.
  Qed.

  (* sort_addresses / sort6_addresses: no out-of-bounds access, the NULL terminator stays in
     place, the result holds the same addresses (as a multiset) in ascending sortlist index *)
  Theorem sort_addresses_correct arr :
    exists arr', sort_addresses idx arr = Ok arr' /\ Permutation arr arr' /\ StronglySorted le_idx arr'.
  Proof.
    unfold sort_addresses.
    destruct (sort_outer_spec arr (length arr) [] (le_n _) (SSorted_nil _)) as (S' & E & SS & P).
    exists S'. auto.
  Qed.
End SortListProofs.

(* ------------------------------------------------------------------------------------ *)
(* ares_dns_addr_to_ptr                                                                  *)
(* ------------------------------------------------------------------------------------ *)
Definition is_byte (b : Z) : Prop := 0 <= b < 256.

(* facts about one byte, established by exhaustive evaluation over 0..255 *)
Fixpoint list_eqb (a b : list Z) : bool :=
  match a, b with
  | [], [] => true
  | x :: a', y :: b' => (x =? y) && list_eqb a' b'
  | _, _ => false
  end.
Lemma list_eqb_eq a : forall b, list_eqb a b = true -> a = b.
Proof.
  induction a as [|x a IH]; intros [|y b] H; try discriminate; [reflexivity|].
  cbn in H. apply andb_prop in H. destruct H as [H1 H2]. apply Z.eqb_eq in H1. subst. f_equal. auto.
Qed.

Definition byte_ok (b : Z) : bool :=
  match append_num_dec b 0 with Ok s => list_eqb s (dec_digits b) | _ => false end
  && (Z.land b 15 =? b mod 16) && (Z.land (Z.shiftr b 4) 15 =? b / 16)
  && match read_dec 3 (dec_digits b ++ [46]) 0 with Some (v, []) => v =? b | _ => false end
  && match unhex (hexbyte (b mod 16)), unhex (hexbyte (b / 16)) with
     | Some l, Some h => h * 16 + l =? b
     | _, _ => false
     end.

Lemma all_bytes_ok : forallb byte_ok (map Z.of_nat (seq 0 256)) = true.
Proof. vm_compute. reflexivity. Qed.

Lemma byte_facts b : is_byte b -> byte_ok b = true.
Proof.
  intros Hb. unfold is_byte in Hb. pose proof all_bytes_ok as H. rewrite forallb_forall in H. apply H.
  apply in_map_iff. exists (Z.to_nat b). split; [lia|]. apply in_seq. lia.
Qed.

Lemma byte_dec b : is_byte b -> append_num_dec b 0 = Ok (dec_digits b).
Proof.
  intros Hb. pose proof (byte_facts b Hb) as H. unfold byte_ok in H.
  repeat (apply andb_prop in H; destruct H as [H ?]).
  destruct (append_num_dec b 0) as [s| |]; try discriminate. f_equal. apply list_eqb_eq. exact H.
Qed.

Lemma byte_nibbles b : is_byte b -> Z.land b 15 = b mod 16 /\ Z.land (Z.shiftr b 4) 15 = b / 16.
Proof.
  intros Hb. pose proof (byte_facts b Hb) as H. unfold byte_ok in H.
  repeat (apply andb_prop in H; destruct H as [H ?]).
  split; apply Z.eqb_eq; assumption.
Qed.

Lemma ptr_loop4_spec bytes : Forall is_byte bytes -> forall acc,
  ptr_loop4 bytes acc = Ok (acc ++ flat_map (fun b => dec_digits b ++ [46]) bytes).
Proof.
  induction 1 as [|b bytes Hb _ IH]; intros acc; cbn [ptr_loop4 flat_map].
  - rewrite app_nil_r. reflexivity.
  - rewrite (byte_dec b Hb). cbn [bind]. rewrite IH. rewrite <- !app_assoc. reflexivity.
Qed.

Lemma ptr_loop6_spec bytes : Forall is_byte bytes -> forall acc,
  ptr_loop6 bytes acc = acc ++ flat_map (fun b => [hexbyte (b mod 16); 46; hexbyte (b / 16); 46]) bytes.
Proof.
  induction 1 as [|b bytes Hb _ IH]; intros acc; cbn [ptr_loop6 flat_map].
  - rewrite app_nil_r. reflexivity.
  - destruct (byte_nibbles b Hb) as [-> ->]. rewrite IH. rewrite <- !app_assoc. reflexivity.
Qed.

Lemma Forall_rev' {A} (P : A -> Prop) l : Forall P l -> Forall P (rev l).
Proof. intros H. apply Forall_forall. intros x Hx. rewrite Forall_forall in H. apply H. apply in_rev. exact Hx. Qed.

(* the name queried for an address is its RFC 1035 / RFC 3596 reverse-map name *)
Theorem addr_to_ptr_rfc4 addr : length addr = 4%nat -> Forall is_byte addr ->
  addr_to_ptr LEG_AF_INET addr = Ok (Some (rfc_ptr4 addr)).
Proof.
  intros Hl Hb. unfold addr_to_ptr. change (negb (LEG_AF_INET =? LEG_AF_INET) && _) with false.
  change (LEG_AF_INET =? LEG_AF_INET) with true. cbv iota. rewrite Hl. cbn [Nat.eqb negb].
  rewrite (ptr_loop4_spec (rev addr) (Forall_rev' _ _ Hb)). reflexivity.
Qed.

Theorem addr_to_ptr_rfc6 addr : length addr = 16%nat -> Forall is_byte addr ->
  addr_to_ptr LEG_AF_INET6 addr = Ok (Some (rfc_ptr6 addr)).
Proof.
  intros Hl Hb. unfold addr_to_ptr. change (negb (LEG_AF_INET6 =? LEG_AF_INET) && _) with false.
  change (LEG_AF_INET6 =? LEG_AF_INET) with false. cbv iota. rewrite Hl. cbn [Nat.eqb negb].
  rewrite (ptr_loop6_spec (rev addr) (Forall_rev' _ _ Hb)). reflexivity.
Qed.

Theorem addr_to_ptr_other family addr : family <> LEG_AF_INET -> family <> LEG_AF_INET6 ->
  addr_to_ptr family addr = Ok None.
Proof.
  intros H4 H6. unfold addr_to_ptr.
  destruct (Z.eqb_spec family LEG_AF_INET); [contradiction|].
  destruct (Z.eqb_spec family LEG_AF_INET6); [contradiction|]. reflexivity.
Qed.

(* distinct addresses have distinct reverse names: the name decodes back to the address *)
Lemma read_dec_app s : forall fuel acc v, read_dec fuel (s ++ [46]) acc = Some (v, []) ->
  forall rest, read_dec fuel (s ++ 46 :: rest) acc = Some (v, rest).
Proof.
  induction s as [|c s IH]; intros fuel acc v H rest.
  - destruct fuel; cbn in *; injection H as <-; reflexivity.
  - cbn [app] in *. destruct fuel as [|f]; cbn [read_dec] in *;
      destruct (c =? 46).
    + injection H as _ H. destruct s; discriminate H.
    + destruct (is_digit c); discriminate H.
    + injection H as _ H. destruct s; discriminate H.
    + destruct (is_digit c); [|discriminate H]. apply IH. exact H.
Qed.

Lemma byte_read b rest : is_byte b -> read_dec 3 (dec_digits b ++ 46 :: rest) 0 = Some (b, rest).
Proof.
  intros Hb. pose proof (byte_facts b Hb) as H. unfold byte_ok in H.
  repeat (apply andb_prop in H; destruct H as [H ?]).
  apply read_dec_app.
  destruct (read_dec 3 (dec_digits b ++ [46]) 0) as [[v [|]]|]; try discriminate.
  match goal with E : (v =? b) = true |- _ => apply Z.eqb_eq in E; subst v end. reflexivity.
Qed.

Lemma byte_unhex b : is_byte b ->
  exists l h, unhex (hexbyte (b mod 16)) = Some l /\ unhex (hexbyte (b / 16)) = Some h /\ h * 16 + l = b.
Proof.
  intros Hb. pose proof (byte_facts b Hb) as H. unfold byte_ok in H.
  repeat (apply andb_prop in H; destruct H as [H ?]).
  destruct (unhex (hexbyte (b mod 16))) as [l|]; [|discriminate].
  destruct (unhex (hexbyte (b / 16))) as [h|]; [|discriminate].
  exists l, h. split; [reflexivity|]. split; [reflexivity|]. apply Z.eqb_eq. assumption.
Qed.

Lemma unptr4_spec l : Forall is_byte l -> forall rest,
  unptr4 (length l) (flat_map (fun b => dec_digits b ++ [46]) l ++ rest) = Some (rev l).
Proof.
  induction 1 as [|b l Hb _ IH]; intros rest; [reflexivity|].
  cbn [length unptr4 flat_map rev]. rewrite <- !app_assoc. cbn [app].
  rewrite (byte_read b _ Hb). rewrite IH. reflexivity.
Qed.

Lemma unptr6_spec l : Forall is_byte l -> forall rest,
  unptr6 (length l) (flat_map (fun b => [hexbyte (b mod 16); 46; hexbyte (b / 16); 46]) l ++ rest) = Some (rev l).
Proof.
  induction 1 as [|b l Hb _ IH]; intros rest; [reflexivity|].
  cbn [length unptr6 flat_map rev app].
  change ((46 =? 46) && (46 =? 46)) with true. cbv iota.
  destruct (byte_unhex b Hb) as (lo & hi & -> & -> & E). rewrite IH, E. reflexivity.
Qed.

Theorem rfc_ptr4_decodes addr : length addr = 4%nat -> Forall is_byte addr -> unptr4 4 (rfc_ptr4 addr) = Some addr.
Proof.
  intros Hl Hb. unfold rfc_ptr4.
  replace 4%nat with (length (rev addr)) by (rewrite rev_length; exact Hl).
  rewrite (unptr4_spec (rev addr) (Forall_rev' _ _ Hb)). rewrite rev_involutive. reflexivity.
Qed.

Theorem rfc_ptr6_decodes addr : length addr = 16%nat -> Forall is_byte addr -> unptr6 16 (rfc_ptr6 addr) = Some addr.
Proof.
  intros Hl Hb. unfold rfc_ptr6.
  replace 16%nat with (length (rev addr)) by (rewrite rev_length; exact Hl).
  rewrite (unptr6_spec (rev addr) (Forall_rev' _ _ Hb)). rewrite rev_involutive. reflexivity.
Qed.

Theorem addr_to_ptr_injective family a b na nb :
  (family = LEG_AF_INET /\ length a = 4%nat /\ length b = 4%nat) \/
  (family = LEG_AF_INET6 /\ length a = 16%nat /\ length b = 16%nat) ->
  Forall is_byte a -> Forall is_byte b ->
  addr_to_ptr family a = Ok (Some na) -> addr_to_ptr family b = Ok (Some nb) -> na = nb -> a = b.
Proof.
  intros [(-> & La & Lb) | (-> & La & Lb)] Ha Hb Ea Eb <-.
  - rewrite (addr_to_ptr_rfc4 a La Ha) in Ea. rewrite (addr_to_ptr_rfc4 b Lb Hb) in Eb.
    injection Ea as Ea. injection Eb as Eb.
    pose proof (rfc_ptr4_decodes a La Ha) as Da. pose proof (rfc_ptr4_decodes b Lb Hb) as Db.
    congruence.
  - rewrite (addr_to_ptr_rfc6 a La Ha) in Ea. rewrite (addr_to_ptr_rfc6 b Lb Hb) in Eb.
    injection Ea as Ea. injection Eb as Eb.
    pose proof (rfc_ptr6_decodes a La Ha) as Da. pose proof (rfc_ptr6_decodes b Lb Hb) as Db.
    congruence.
Qed.

Example ex_ptr4 : addr_to_ptr LEG_AF_INET [192; 0; 2; 10] =
  Ok (Some [49; 48; 46; 50; 46; 48; 46; 49; 57; 50; 46; 105; 110; 45; 97; 100; 100; 114; 46; 97; 114; 112; 97]).
Proof. vm_compute. reflexivity. Qed.   (* "10.2.0.192.in-addr.arpa" *)

(* ------------------------------------------------------------------------------------ *)
(* ares_addrinfo_localhost                                                               *)
(* ------------------------------------------------------------------------------------ *)
Lemma ai_has_family_existsb af nodes : ai_has_family af nodes = existsb (fun nd => n_family nd =? af) nodes.
Proof. induction nodes as [|nd nodes IH]; [reflexivity|]. cbn. rewrite IH. destruct (n_family nd =? af); reflexivity. Qed.

Theorem localhost_spec name port family ai :
  family = LEG_AF_UNSPEC \/ family = LEG_AF_INET \/ family = LEG_AF_INET6 ->
  addrinfo_localhost name port family ai =
  (ARES_SUCCESS, mkAI (Some name) (spec_loopback family port (ai_nodes ai)) (ai_cnames ai)).
Proof.
  intros Hf. unfold addrinfo_localhost, default_loopback_addrs, spec_loopback.
  assert (Hv : negb ((family =? LEG_AF_INET) || (family =? LEG_AF_INET6) || (family =? LEG_AF_UNSPEC)) = false)
    by (destruct Hf as [-> | [-> | ->]]; reflexivity).
  rewrite Hv. f_equal. f_equal.
  rewrite !ai_has_family_existsb.
  change (ttl_to_int 0) with 0.
  set (w6 := (family =? LEG_AF_UNSPEC) || (family =? LEG_AF_INET6)).
  set (w4 := (family =? LEG_AF_UNSPEC) || (family =? LEG_AF_INET)).
  destruct (w6 && negb (existsb (fun nd => n_family nd =? LEG_AF_INET6) (ai_nodes ai))).
  - rewrite existsb_app. cbn [existsb n_family]. change (LEG_AF_INET6 =? LEG_AF_INET) with false.
    rewrite !orb_false_r.
    destruct (w4 && negb (existsb (fun nd => n_family nd =? LEG_AF_INET) (ai_nodes ai)));
      rewrite <- ?app_assoc, ?app_nil_r; reflexivity.
  - destruct (w4 && negb (existsb (fun nd => n_family nd =? LEG_AF_INET) (ai_nodes ai)));
      rewrite ?app_nil_r; reflexivity.
Qed.

Theorem localhost_badfamily name port family ai :
  family <> LEG_AF_UNSPEC -> family <> LEG_AF_INET -> family <> LEG_AF_INET6 ->
  addrinfo_localhost name port family ai = (ARES_EBADFAMILY, ai).
Proof.
  intros H0 H4 H6. unfold addrinfo_localhost.
  destruct (Z.eqb_spec family LEG_AF_INET); [contradiction|].
  destruct (Z.eqb_spec family LEG_AF_INET6); [contradiction|].
  destruct (Z.eqb_spec family LEG_AF_UNSPEC); [contradiction|]. reflexivity.
Qed.
