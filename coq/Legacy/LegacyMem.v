(* Ownership ledger for the legacy reply parsers (property C18, "what it returns is released
   completely by its matching free function") and the allocator's answers as a model input.

   Every ares_malloc / ares_malloc_zero / ares_strdup / ares_realloc_zero(NULL, ..) /
   ares_malloc_data of the conversion code is one call of [alloc]: the allocator's answer to
   the k-th call is [fail k] (true = NULL).  Blocks are identified by the number of the call
   that created them; [m_live] is the ledger of blocks not yet freed; freeing a block that is
   not in the ledger is UB (double free / invalid free).

   The result structures carry the block ids of every pointer field, the free functions
   (ares_free_data, ares_free_hostent, ares_freeaddrinfo_cnames/_nodes) walk them exactly as
   the C code does: lists along `next`, NULL fields skipped by ares_free(NULL), pointer arrays
   up to the first NULL slot.

   The data carried by the structures is the subject of Legacy.v; here only WHICH records make
   the code allocate matters, taken from the projections of Legacy_spec.v (proj_mx, ...).
   The allocations of ares_dns_parse / ares_dns_record_destroy are not modelled (wire parser):
   the oracle starts after the record has been parsed. *)
From Coq Require Import Permutation.
From CAres.Legacy Require Export Legacy_spec.
From CAres.Gen Require Import Consts.
Local Open Scope Z_scope.

Record mem := mkMem { m_count : nat; m_live : list nat }.

Section WithAllocator.
  Variable fail : nat -> bool.

  Definition alloc (m : mem) : option nat * mem :=
    if fail (m_count m) then (None, mkMem (S (m_count m)) (m_live m))
    else (Some (m_count m), mkMem (S (m_count m)) (m_count m :: m_live m)).

  Definition free (m : mem) (b : nat) : outcome mem :=
    if existsb (Nat.eqb b) (m_live m) then Ok (mkMem (m_count m) (remove Nat.eq_dec b (m_live m)))
    else UB DoubleFree.

  (* ares_free(p) with p possibly NULL *)
  Definition free_opt (m : mem) (b : option nat) : outcome mem :=
    match b with None => Ok m | Some b => free m b end.

  Fixpoint free_many (bs : list nat) (m : mem) : outcome mem :=
    match bs with [] => Ok m | b :: rest => do m' <- free m b; free_many rest m' end.

  (* ---------------------------------------------------------------------------------- *)
  (* linked lists of ares_data nodes (mx, srv, naptr, caa, uri, txt, txt_ext, soa)       *)
  (* ---------------------------------------------------------------------------------- *)
  Record lnode := mkLNode { ln_blk : nat; ln_fields : list (option nat) }.

  (* the pointer fields of one node are filled in order; the first failure leaves the
     remaining ones NULL (the node comes from ares_malloc_zero) *)
  Fixpoint alloc_fields (k : nat) (m : mem) (acc : list (option nat)) : bool * list (option nat) * mem :=
    match k with
    | O => (true, acc, m)
    | S k' =>
      match alloc m with
      | (Some b, m') => alloc_fields k' m' (acc ++ [Some b])
      | (None, m') => (false, acc ++ repeat None (S k'), m')
      end
    end.

  Fixpoint somes (l : list (option nat)) : list nat :=
    match l with [] => [] | Some b :: t => b :: somes t | None :: t => somes t end.

  (* ares_free_data: one node = its pointer fields, then the node *)
  Definition node_blocks (n : lnode) : list nat := somes (ln_fields n) ++ [ln_blk n].
  Definition free_data (nodes : list lnode) (m : mem) : outcome mem := free_many (flat_map node_blocks nodes) m.

  (* the items one record makes the parser allocate, each with its number of pointer fields *)
  Fixpoint items_loop (items : list nat) (acc : list lnode) (m : mem) : bool * list lnode * mem :=
    match items with
    | [] => (true, acc, m)
    | k :: rest =>
      match alloc m with                                   (* ares_malloc_data *)
      | (None, m1) => (false, acc, m1)
      | (Some b, m1) =>
        let '(ok, fs, m2) := alloc_fields k m1 [] in        (* linked first, then filled *)
        let acc' := acc ++ [mkLNode b fs] in
        if ok then items_loop rest acc' m2 else (false, acc', m2)
      end
    end.

  Fixpoint list_loop_mem (items_of : rr -> list nat) (rrs : list rr) (acc : list lnode) (m : mem)
    : bool * list lnode * mem :=
    match rrs with
    | [] => (true, acc, m)
    | r :: rest =>
      let '(ok, acc', m') := items_loop (items_of r) acc m in
      if ok then list_loop_mem items_of rest acc' m' else (false, acc', m')
    end.

  (* frame of the list parsers; result: status, *out, ledger *)
  Definition list_parser_mem (items_of : rr -> list nat) (alen_neg : bool) (p : parsed) (m : mem)
    : outcome (Z * list lnode * mem) :=
    if alen_neg then Ok (ARES_EBADRESP, [], m)
    else match p with
    | ParseFail st => Ok (st, [], m)
    | Parsed rec =>
      if Nat.eqb (length (r_answers rec)) 0 then Ok (ARES_ENODATA, [], m)
      else
        let '(ok, nodes, m') := list_loop_mem items_of (r_answers rec) [] m in
        if ok then Ok (ARES_SUCCESS, nodes, m')
        else do m'' <- free_data nodes m'; Ok (ARES_ENOMEM, [], m'')     (* if (mx_head) ares_free_data(mx_head) *)
    end.

  Definition one_if {A} (o : option A) (k : nat) : list nat := match o with Some _ => [k] | None => [] end.
  Definition mx_items (r : rr) : list nat := one_if (proj_mx r) 1.
  Definition srv_items (r : rr) : list nat := one_if (proj_srv r) 1.
  Definition naptr_items (r : rr) : list nat := one_if (proj_naptr r) 4.
  Definition caa_items (r : rr) : list nat := one_if (proj_caa r) 2.
  Definition uri_items (r : rr) : list nat := one_if (proj_uri r) 1.
  Definition txt_items (r : rr) : list nat := map (fun _ => 1%nat) (proj_txt false r).

  (* ares_parse_soa_reply: one node with two strings, first IN SOA only *)
  Definition soa_mem (alen_neg : bool) (p : parsed) (m : mem) : outcome (Z * option lnode * mem) :=
    if alen_neg then Ok (ARES_EBADRESP, None, m)
    else match p with
    | ParseFail st => Ok (compat st, None, m)
    | Parsed rec =>
      if Nat.eqb (length (r_answers rec)) 0 then Ok (ARES_EBADRESP, None, m)
      else match filter_map proj_soa (r_answers rec) with
      | [] => Ok (ARES_EBADRESP, None, m)
      | _ :: _ =>
        match alloc m with
        | (None, m1) => Ok (ARES_ENOMEM, None, m1)                     (* ares_free_data(NULL) *)
        | (Some b, m1) =>
          let '(ok, fs, m2) := alloc_fields 2 m1 [] in
          if ok then Ok (ARES_SUCCESS, Some (mkLNode b fs), m2)
          else do m3 <- free_data [mkLNode b fs] m2; Ok (ARES_ENOMEM, None, m3)
        end
      end
    end.

  (* ---------------------------------------------------------------------------------- *)
  (* struct hostent                                                                      *)
  (* ---------------------------------------------------------------------------------- *)
  Record hostent_m := mkHM {
    hm_blk     : nat;
    hm_name    : option nat;
    hm_aliases : option (nat * list (option nat));     (* array block, slots *)
    hm_addrs   : option (nat * list (option nat)) }.

  (* ares_free_hostent: name, aliases up to the first NULL (reading on past the array would be
     UB), the array, addresses up to the first NULL, the array, the struct *)
  Definition array_blocks (a : option (nat * list (option nat))) : outcome (list nat) :=
    match a with
    | Some (blk, slots) => do l <- until_null slots; Ok (l ++ [blk])
    | None => Ok []
    end.
  Definition hostent_blocks (h : hostent_m) : outcome (list nat) :=
    do al <- array_blocks (hm_aliases h);
    do ad <- array_blocks (hm_addrs h);
    Ok (somes [hm_name h] ++ al ++ ad ++ [hm_blk h]).
  Definition free_hostent (h : option hostent_m) (m : mem) : outcome mem :=
    match h with None => Ok m | Some h => do bs <- hostent_blocks h; free_many bs m end.

  (* fill slots i, i+1, ... with one allocation each; stops at the first failure *)
  Fixpoint fill_slots (n : nat) (slots : list (option nat)) (i : nat) (m : mem)
    : outcome (bool * list (option nat) * mem) :=
    match n with
    | O => Ok (true, slots, m)
    | S n' =>
      match alloc m with
      | (None, m') => Ok (false, slots, m')
      | (Some b, m') => do s' <- set_slot slots i b; fill_slots n' s' (S i) m'
      end
    end.

  (* ares_parse_ns_reply: hostent, h_addr_list (one slot), h_name, h_aliases (ancount + 1),
     one strdup per NS record *)
  Definition ns_mem (alen_neg : bool) (p : parsed) (m : mem) : outcome (Z * option hostent_m * mem) :=
    if alen_neg then Ok (ARES_EBADRESP, None, m)
    else match p with
    | ParseFail st => Ok (compat st, None, m)
    | Parsed rec =>
      let ancount := length (r_answers rec) in
      if Nat.eqb ancount 0 then Ok (ARES_ENODATA, None, m)
      else
        match alloc m with
        | (None, m1) => Ok (ARES_ENOMEM, None, m1)
        | (Some hb, m1) =>
          let h0 := mkHM hb None None None in
          match alloc m1 with
          | (None, m2) => do m' <- free_hostent (Some h0) m2; Ok (ARES_ENOMEM, None, m')
          | (Some ab, m2) =>
            let h1 := mkHM hb None None (Some (ab, [None])) in
            match r_questions rec with
            | [] => do m' <- free_hostent (Some h1) m2; Ok (ARES_EFORMERR, None, m')
            | _ :: _ =>
              match alloc m2 with
              | (None, m3) => do m' <- free_hostent (Some h1) m3; Ok (ARES_ENOMEM, None, m')
              | (Some nb, m3) =>
                let h2 := mkHM hb (Some nb) None (Some (ab, [None])) in
                match alloc m3 with
                | (None, m4) => do m' <- free_hostent (Some h2) m4; Ok (ARES_ENOMEM, None, m')
                | (Some alb, m4) =>
                  let n := length (filter_map proj_ns (r_answers rec)) in
                  do r <- fill_slots n (repeat None (S ancount)) 0 m4;
                  let '(ok, slots, m5) := r in
                  let h3 := mkHM hb (Some nb) (Some (alb, slots)) (Some (ab, [None])) in
                  if negb ok then do m' <- free_hostent (Some h3) m5; Ok (ARES_ENOMEM, None, m')
                  else if Nat.eqb n 0 then do m' <- free_hostent (Some h3) m5; Ok (ARES_ENODATA, None, m')
                  else Ok (ARES_SUCCESS, Some h3, m5)
                end
              end
            end
          end
        end
    end.

  (* ares_parse_ptr_reply: hostent, h_addr_list (two slots), the address copy, h_aliases,
     one strdup per PTR record, h_name at the end *)
  Definition ptr_mem (alen_neg : bool) (p : parsed) (addr_given : bool) (m : mem)
    : outcome (Z * option hostent_m * mem) :=
    if alen_neg then Ok (ARES_EBADRESP, None, m)
    else match p with
    | ParseFail st => Ok (compat st, None, m)
    | Parsed rec =>
      match r_questions rec with
      | [] => Ok (ARES_EFORMERR, None, m)
      | _ :: _ =>
        let ancount := length (r_answers rec) in
        if Nat.eqb ancount 0 then Ok (ARES_ENODATA, None, m)
        else
          match alloc m with
          | (None, m1) => Ok (ARES_ENOMEM, None, m1)
          | (Some hb, m1) =>
            match alloc m1 with
            | (None, m2) => do m' <- free_hostent (Some (mkHM hb None None None)) m2; Ok (ARES_ENOMEM, None, m')
            | (Some ab, m2) =>
              do r0 <- (if addr_given then fill_slots 1 [None; None] 0 m2 else Ok (true, [None; None], m2));
              let '(ok0, aslots, m3) := r0 in
              let h1 := mkHM hb None None (Some (ab, aslots)) in
              if negb ok0 then do m' <- free_hostent (Some h1) m3; Ok (ARES_ENOMEM, None, m')
              else
                match alloc m3 with
                | (None, m4) => do m' <- free_hostent (Some h1) m4; Ok (ARES_ENOMEM, None, m')
                | (Some alb, m4) =>
                  let n := length (filter_map proj_ptr (r_answers rec)) in
                  do r <- fill_slots n (repeat None (S ancount)) 0 m4;
                  let '(ok, slots, m5) := r in
                  let h2 := mkHM hb None (Some (alb, slots)) (Some (ab, aslots)) in
                  if negb ok then do m' <- free_hostent (Some h2) m5; Ok (ARES_ENOMEM, None, m')
                  else if Nat.eqb n 0 then do m' <- free_hostent (Some h2) m5; Ok (ARES_ENODATA, None, m')
                  else
                    match alloc m5 with
                    | (None, m6) => do m' <- free_hostent (Some h2) m6; Ok (ARES_ENOMEM, None, m')
                    | (Some nb, m6) => Ok (ARES_SUCCESS, Some (mkHM hb (Some nb) (Some (alb, slots)) (Some (ab, aslots))), m6)
                    end
                end
            end
          end
      end
    end.

  (* ---------------------------------------------------------------------------------- *)
  (* ares_parse_a_reply / ares_parse_aaaa_reply                                          *)
  (* ---------------------------------------------------------------------------------- *)
  (* struct ares_addrinfo: cname entries (struct, alias, name), nodes (struct, ai_addr), name *)
  Record ai_m := mkAIM { am_cnames : list lnode; am_nodes : list lnode; am_name : option nat }.
  Definition ai_blocks (a : ai_m) : list nat :=
    flat_map node_blocks (am_cnames a) ++ flat_map node_blocks (am_nodes a) ++ somes [am_name a].
  (* ares_freeaddrinfo_cnames; ares_freeaddrinfo_nodes; ares_free(ai.name) *)
  Definition free_ai (a : ai_m) (m : mem) : outcome mem := free_many (ai_blocks a) m.

  (* what one answer record makes ares_parse_into_addrinfo allocate *)
  Inductive pia_ev := EvCname | EvNode.
  Definition pia_event (r : rr) : option pia_ev :=
    match proj_cname r with
    | Some _ => Some EvCname
    | None => match node_of 0 r with Some _ => Some EvNode | None => None end
    end.

  Fixpoint pia_loop_mem (rrs : list rr) (cn nd : list lnode) (m : mem) : bool * list lnode * list lnode * mem :=
    match rrs with
    | [] => (true, cn, nd, m)
    | r :: rest =>
      match pia_event r with
      | None => pia_loop_mem rest cn nd m
      | Some ev =>
        match alloc m with
        | (None, m1) => (false, cn, nd, m1)
        | (Some b, m1) =>
          let '(ok, fs, m2) := alloc_fields (match ev with EvCname => 2%nat | EvNode => 1%nat end) m1 [] in
          let cn' := match ev with EvCname => cn ++ [mkLNode b fs] | EvNode => cn end in
          let nd' := match ev with EvNode => nd ++ [mkLNode b fs] | EvCname => nd end in
          if ok then pia_loop_mem rest cn' nd' m2 else (false, cn', nd', m2)
        end
      end
    end.

  (* ares_parse_into_addrinfo(dnsrec, FALSE, 0, &ai) into the empty ai of the legacy parsers:
     status, the addrinfo (empty unless success), ledger *)
  Definition pia_mem (rec : dnsrec) (m : mem) : outcome (Z * ai_m * mem) :=
    let empty := mkAIM [] [] None in
    match r_questions rec with
    | [] => Ok (ARES_EFORMERR, empty, m)
    | _ :: _ =>
      if Nat.eqb (length (r_answers rec)) 0 then Ok (ARES_ENODATA, empty, m)
      else
        let '(ok, cn, nd, m1) := pia_loop_mem (r_answers rec) [] [] m in
        if negb ok then do m' <- free_ai (mkAIM cn nd None) m1; Ok (ARES_ENOMEM, empty, m')
        else if is_nil cn && is_nil nd then Ok (ARES_ENODATA, empty, m1)
        else
          match alloc m1 with                                                  (* ai->name *)
          | (None, m2) => do m' <- free_ai (mkAIM cn nd None) m2; Ok (ARES_ENOMEM, empty, m')
          | (Some nb, m2) => Ok (ARES_SUCCESS, mkAIM cn nd (Some nb), m2)
          end
    end.

  (* ares_addrinfo2hostent on a fresh *host: [has_name]: the string to duplicate is not NULL;
     [nalias]/[naddr]: entries to copy *)
  Definition a2h_mem (has_name : bool) (nalias naddr : nat) (m : mem) : outcome (Z * option hostent_m * mem) :=
    match alloc m with
    | (None, m1) => Ok (ARES_ENOMEM, None, m1)                              (* ares_free_hostent(NULL) *)
    | (Some hb, m1) =>
      let '(nok, nm, m2) := if has_name then (match alloc m1 with (Some b, m') => (true, Some b, m') | (None, m') => (false, None, m') end)
                            else (true, None, m1) in
      let h0 := mkHM hb nm None None in
      if negb nok then do m' <- free_hostent (Some h0) m2; Ok (ARES_ENOMEM, None, m')
      else
        match alloc m2 with
        | (None, m3) => do m' <- free_hostent (Some h0) m3; Ok (ARES_ENOMEM, None, m')
        | (Some alb, m3) =>
          do r <- fill_slots nalias (repeat None (S nalias)) 0 m3;
          let '(ok, aslots, m4) := r in
          let h1 := mkHM hb nm (Some (alb, aslots)) None in
          if negb ok then do m' <- free_hostent (Some h1) m4; Ok (ARES_ENOMEM, None, m')
          else
            match alloc m4 with
            | (None, m5) => do m' <- free_hostent (Some h1) m5; Ok (ARES_ENOMEM, None, m')
            | (Some adb, m5) =>
              do r2 <- fill_slots naddr (repeat None (S naddr)) 0 m5;
              let '(ok2, dslots, m6) := r2 in
              let h2 := mkHM hb nm (Some (alb, aslots)) (Some (adb, dslots)) in
              if negb ok2 then do m' <- free_hostent (Some h2) m6; Ok (ARES_ENOMEM, None, m')
              else if Nat.eqb naddr 0 && Nat.eqb nalias 0 then do m' <- free_hostent (Some h2) m6; Ok (ARES_ENODATA, None, m')
              else Ok (ARES_SUCCESS, Some h2, m6)
            end
        end
    end.

  Definition count_fam (family : Z) (rrs : list rr) : nat := length (filter_map (proj_addr family) rrs).

  (* the whole legacy parser: the addrinfo is always released before returning; *host is the
     only thing handed out *)
  Definition addr_reply_mem (family : Z) (alen_neg : bool) (p : parsed) (want_host : bool) (m : mem)
    : outcome (Z * option hostent_m * mem) :=
    if alen_neg then Ok (ARES_EBADRESP, None, m)
    else match p with
    | ParseFail st => Ok (compat st, None, m)
    | Parsed rec =>
      do x <- pia_mem rec m;
      let '(st1, ai, m1) := x in
      if negb (st1 =? ARES_SUCCESS) && negb (st1 =? ARES_ENODATA) then Ok (compat st1, None, m1)
      else if want_host then
        do y <- a2h_mem (st1 =? ARES_SUCCESS) (length (am_cnames ai))
                        (if st1 =? ARES_SUCCESS then count_fam family (r_answers rec) else 0%nat) m1;
        let '(st2, h, m2) := y in
        do m3 <- free_ai ai m2;
        Ok (compat st2, h, m3)
      else do m3 <- free_ai ai m1; Ok (compat st1, None, m3)
    end.
End WithAllocator.
