(* Proofs: the code-shaped legacy parsers of Legacy.v compute the declarative projections of
   Legacy_spec.v, for every record. *)
From CAres.Legacy Require Import Rec Legacy Legacy_spec.
From CAres.Gen Require Import Consts.
Local Open Scope Z_scope.

(* ------------------------------------------------------------------------------------ *)
(* linked-list parsers                                                                   *)
(* ------------------------------------------------------------------------------------ *)
Lemma mx_loop_spec rrs : forall acc, mx_loop rrs acc = acc ++ filter_map proj_mx rrs.
Proof.
  induction rrs as [|r rest IH]; intros acc; simpl.
  - symmetry; apply app_nil_r.
  - unfold proj_mx. destruct (is_in r); simpl; [|apply IH].
    destruct (rr_data r); try apply IH.
    rewrite IH, <- app_assoc. reflexivity.
Qed.

Lemma srv_loop_spec rrs : forall acc, srv_loop rrs acc = acc ++ filter_map proj_srv rrs.
Proof.
  induction rrs as [|r rest IH]; intros acc; simpl.
  - symmetry; apply app_nil_r.
  - unfold proj_srv. destruct (is_in r); simpl; [|apply IH].
    destruct (rr_data r); try apply IH.
    rewrite IH, <- app_assoc. reflexivity.
Qed.

Lemma naptr_loop_spec rrs : forall acc, naptr_loop rrs acc = acc ++ filter_map proj_naptr rrs.
Proof.
  induction rrs as [|r rest IH]; intros acc; simpl.
  - symmetry; apply app_nil_r.
  - unfold proj_naptr. destruct (is_in r); simpl; [|apply IH].
    destruct (rr_data r); try apply IH.
    rewrite IH, <- app_assoc. reflexivity.
Qed.

Lemma caa_loop_spec rrs : forall acc, caa_loop rrs acc = acc ++ filter_map proj_caa rrs.
Proof.
  induction rrs as [|r rest IH]; intros acc; simpl.
  - symmetry; apply app_nil_r.
  - unfold proj_caa. destruct (is_in_or_chaos r); simpl; [|apply IH].
    destruct (rr_data r); try apply IH.
    rewrite IH, <- app_assoc. reflexivity.
Qed.

Lemma uri_loop_spec rrs : forall acc, uri_loop rrs acc = acc ++ filter_map proj_uri rrs.
Proof.
  induction rrs as [|r rest IH]; intros acc; simpl.
  - symmetry; apply app_nil_r.
  - unfold proj_uri. destruct (is_in r); simpl; [|apply IH].
    destruct (rr_data r); try apply IH.
    rewrite IH, <- app_assoc. reflexivity.
Qed.

(* inner loop: entries for the remaining strings, the counter decides record_start *)
Lemma txt_inner_tail ex cs : forall j acc, (0 < j)%nat ->
  txt_inner ex cs j acc = acc ++ map (fun c => mkTxt false (Z.of_nat (length c)) c) cs.
Proof.
  induction cs as [|c cs IH]; intros j acc Hj; simpl.
  - symmetry; apply app_nil_r.
  - rewrite IH by lia. rewrite <- app_assoc. simpl.
    destruct j as [|j]; [lia|]. simpl. rewrite andb_false_r. reflexivity.
Qed.

Lemma txt_inner_spec ex cs acc : txt_inner ex cs 0 acc = acc ++ txt_entries ex cs.
Proof.
  destruct cs as [|c cs]; simpl.
  - symmetry; apply app_nil_r.
  - rewrite txt_inner_tail by lia. rewrite <- app_assoc. simpl. rewrite andb_true_r. reflexivity.
Qed.

Lemma txt_loop_spec ex rrs : forall acc, txt_loop ex rrs acc = acc ++ flat_map (proj_txt ex) rrs.
Proof.
  induction rrs as [|r rest IH]; intros acc; simpl.
  - symmetry; apply app_nil_r.
  - unfold proj_txt. destruct (is_in_or_chaos r); simpl; [|apply IH].
    destruct (rr_data r); try apply IH.
    rewrite IH, txt_inner_spec, <- app_assoc. reflexivity.
Qed.

Lemma list_parser_spec {A} (loop : list rr -> list A -> list A) (proj : list rr -> list A) :
  (forall rrs acc, loop rrs acc = acc ++ proj rrs) -> proj [] = [] ->
  forall rec, list_parser loop false (Parsed rec) = (nodata_list_status rec, proj (r_answers rec)).
Proof.
  intros Hloop Hnil rec. unfold list_parser, nodata_list_status.
  destruct (r_answers rec) as [|r rest] eqn:E; simpl.
  - rewrite Hnil. reflexivity.
  - rewrite Hloop. reflexivity.
Qed.

Lemma parse_mx_spec rec : parse_mx_reply false (Parsed rec) = spec_mx rec.
Proof. apply (list_parser_spec mx_loop (filter_map proj_mx)); [apply mx_loop_spec | reflexivity]. Qed.
Lemma parse_srv_spec rec : parse_srv_reply false (Parsed rec) = spec_srv rec.
Proof. apply (list_parser_spec srv_loop (filter_map proj_srv)); [apply srv_loop_spec | reflexivity]. Qed.
Lemma parse_naptr_spec rec : parse_naptr_reply false (Parsed rec) = spec_naptr rec.
Proof. apply (list_parser_spec naptr_loop (filter_map proj_naptr)); [apply naptr_loop_spec | reflexivity]. Qed.
Lemma parse_caa_spec rec : parse_caa_reply false (Parsed rec) = spec_caa rec.
Proof. apply (list_parser_spec caa_loop (filter_map proj_caa)); [apply caa_loop_spec | reflexivity]. Qed.
Lemma parse_uri_spec rec : parse_uri_reply false (Parsed rec) = spec_uri rec.
Proof. apply (list_parser_spec uri_loop (filter_map proj_uri)); [apply uri_loop_spec | reflexivity]. Qed.
Lemma parse_txt_spec rec : parse_txt_reply false (Parsed rec) = spec_txt false rec.
Proof. apply (list_parser_spec (txt_loop false) (flat_map (proj_txt false))); [apply txt_loop_spec | reflexivity]. Qed.
Lemma parse_txt_ext_spec rec : parse_txt_reply_ext false (Parsed rec) = spec_txt true rec.
Proof. apply (list_parser_spec (txt_loop true) (flat_map (proj_txt true))); [apply txt_loop_spec | reflexivity]. Qed.

(* ------------------------------------------------------------------------------------ *)
(* soa                                                                                   *)
(* ------------------------------------------------------------------------------------ *)
Lemma soa_loop_spec rrs : soa_loop rrs = hd_error (filter_map proj_soa rrs).
Proof.
  induction rrs as [|r rest IH]; simpl; [reflexivity|].
  unfold proj_soa. destruct (is_in r); simpl; [|apply IH].
  destruct (rr_data r); try apply IH. reflexivity.
Qed.

Lemma parse_soa_spec rec : parse_soa_reply false (Parsed rec) = spec_soa rec.
Proof.
  unfold parse_soa_reply, spec_soa. rewrite soa_loop_spec.
  destruct (r_answers rec) as [|r rest]; simpl; [reflexivity|].
  destruct (match proj_soa r with Some y => y :: filter_map proj_soa rest | None => filter_map proj_soa rest end);
    reflexivity.
Qed.

(* ------------------------------------------------------------------------------------ *)
(* pointer arrays                                                                        *)
(* ------------------------------------------------------------------------------------ *)
Lemma firstn_map_app {A} (xs : list A) (R : list (option A)) :
  firstn (length xs) (map Some xs ++ R) = map Some xs.
Proof. induction xs as [|x xs IH]; simpl; [reflexivity | rewrite IH; reflexivity]. Qed.

Lemma skipn_map_app {A} (xs : list A) y (R : list (option A)) :
  skipn (S (length xs)) (map Some xs ++ y :: R) = R.
Proof. induction xs as [|x xs IH]; [reflexivity | exact IH]. Qed.

Lemma set_slot_fill {A} (xs : list A) k v :
  set_slot (map Some xs ++ repeat None (S k)) (length xs) v = Ok (map Some (xs ++ [v]) ++ repeat None k).
Proof.
  unfold set_slot. rewrite app_length, map_length, repeat_length.
  destruct (Nat.ltb_spec (length xs) (length xs + S k)) as [_|H]; [|lia].
  cbn [repeat]. rewrite firstn_map_app, skipn_map_app, map_app, <- app_assoc. reflexivity.
Qed.

Lemma until_null_fill {A} (xs : list A) t : until_null (map Some xs ++ None :: t) = Ok xs.
Proof. induction xs as [|x xs IH]; simpl; [reflexivity | rewrite IH; reflexivity]. Qed.

Lemma until_null_fill_repeat {A} (xs : list A) k : (0 < k)%nat ->
  until_null (map Some xs ++ repeat None k) = Ok xs.
Proof. intros Hk. destruct k as [|k]; [lia|]. simpl. apply until_null_fill. Qed.

Lemma filter_map_length {A B} (f : A -> option B) l : (length (filter_map f l) <= length l)%nat.
Proof. induction l as [|x l IH]; simpl; [lia|]. destruct (f x); simpl; lia. Qed.

(* ------------------------------------------------------------------------------------ *)
(* ns                                                                                    *)
(* ------------------------------------------------------------------------------------ *)
Lemma ns_step r rest al c :
  ns_loop (r :: rest) al c =
  match proj_ns r with
  | Some n => do a <- set_slot al c n; ns_loop rest a (S c)
  | None => ns_loop rest al c
  end.
Proof.
  simpl. unfold proj_ns. destruct (is_in r); simpl; [|reflexivity].
  destruct (rr_data r); reflexivity.
Qed.

Lemma ns_loop_spec rrs : forall xs k, (length (filter_map proj_ns rrs) <= k)%nat ->
  ns_loop rrs (map Some xs ++ repeat None k) (length xs) =
  Ok (map Some (xs ++ filter_map proj_ns rrs) ++ repeat None (k - length (filter_map proj_ns rrs)),
      (length xs + length (filter_map proj_ns rrs))%nat).
Proof.
  induction rrs as [|r rest IH]; intros xs k Hk.
  - simpl. rewrite app_nil_r, Nat.sub_0_r, Nat.add_0_r. reflexivity.
  - rewrite ns_step. cbn [filter_map] in *. destruct (proj_ns r) as [n|]; [|apply IH; exact Hk].
    cbn [length] in Hk. destruct k as [|k]; [lia|].
    rewrite set_slot_fill. cbn [bind].
    replace (S (length xs)) with (length (xs ++ [n])) by (rewrite app_length; simpl; lia).
    rewrite IH by lia. rewrite <- app_assoc, app_length. cbn [app length].
    replace (S k - S (length (filter_map proj_ns rest)))%nat with (k - length (filter_map proj_ns rest))%nat by lia.
    replace (length xs + 1 + length (filter_map proj_ns rest))%nat
      with (length xs + S (length (filter_map proj_ns rest)))%nat by lia.
    reflexivity.
Qed.

Lemma parse_ns_spec rec q qs : r_questions rec = q :: qs ->
  observe_hostres (parse_ns_reply false (Parsed rec)) = Ok (spec_ns rec).
Proof.
  intros Hq. unfold parse_ns_reply, spec_ns, qname. rewrite Hq.
  destruct (r_answers rec) as [|r rest] eqn:E; [reflexivity|].
  set (ans := r :: rest).
  assert (Hnz : Nat.eqb (length ans) 0 = false) by reflexivity.
  rewrite Hnz.
  pose proof (ns_loop_spec ans [] (S (length ans))) as H.
  cbn [map app] in H. change (length (@nil str)) with 0%nat in H.
  pose proof (filter_map_length proj_ns ans) as Hlen.
  rewrite H by lia. clear H. cbn [bind].
  destruct (filter_map proj_ns ans) as [|n names] eqn:En; [reflexivity|].
  cbn [Nat.add]. change (Nat.eqb (length (n :: names)) 0) with false. cbv iota.
  unfold observe_hostres, observe_host, view_host. cbn [bind snd fst h_aliases h_addr_list].
  unfold view_slots. rewrite until_null_fill_repeat by lia. reflexivity.
Qed.

(* ------------------------------------------------------------------------------------ *)
(* ptr                                                                                   *)
(* ------------------------------------------------------------------------------------ *)
Definition last_or (names : list str) (hn : option str) : option str :=
  match names with [] => hn | _ :: _ => Some (last names []) end.

Lemma ptr_step r rest al c hn :
  ptr_loop (r :: rest) al c hn =
  match proj_ptr r with
  | Some n => do a <- set_slot al c n; ptr_loop rest a (S c) (Some n)
  | None => ptr_loop rest al c hn
  end.
Proof.
  simpl. unfold proj_ptr. destruct (is_in r); simpl; [|reflexivity].
  destruct (rr_data r); reflexivity.
Qed.

Lemma ptr_loop_spec rrs : forall xs k hn, (length (filter_map proj_ptr rrs) <= k)%nat ->
  ptr_loop rrs (map Some xs ++ repeat None k) (length xs) hn =
  Ok (map Some (xs ++ filter_map proj_ptr rrs) ++ repeat None (k - length (filter_map proj_ptr rrs)),
      (length xs + length (filter_map proj_ptr rrs))%nat,
      last_or (filter_map proj_ptr rrs) hn).
Proof.
  induction rrs as [|r rest IH]; intros xs k hn Hk.
  - simpl. rewrite app_nil_r, Nat.sub_0_r, Nat.add_0_r. reflexivity.
  - rewrite ptr_step. cbn [filter_map] in *. destruct (proj_ptr r) as [n|]; [|apply IH; exact Hk].
    cbn [length] in Hk. destruct k as [|k]; [lia|].
    rewrite set_slot_fill. cbn [bind].
    replace (S (length xs)) with (length (xs ++ [n])) by (rewrite app_length; simpl; lia).
    rewrite IH by lia. rewrite <- app_assoc, app_length. cbn [app length].
    replace (S k - S (length (filter_map proj_ptr rest)))%nat with (k - length (filter_map proj_ptr rest))%nat by lia.
    replace (length xs + 1 + length (filter_map proj_ptr rest))%nat
      with (length xs + S (length (filter_map proj_ptr rest)))%nat by lia.
    assert (Hl : last_or (filter_map proj_ptr rest) (Some n) = last_or (n :: filter_map proj_ptr rest) hn).
    { unfold last_or. destruct (filter_map proj_ptr rest); reflexivity. }
    rewrite Hl. reflexivity.
Qed.

Lemma parse_ptr_spec rec q qs addr addrlen family : r_questions rec = q :: qs ->
  observe_hostres (parse_ptr_reply false (Parsed rec) addr addrlen family) = Ok (spec_ptr rec addr addrlen family).
Proof.
  intros Hq. unfold parse_ptr_reply, parse_ptr_reply_dnsrec, spec_ptr. rewrite Hq.
  destruct (r_answers rec) as [|r rest] eqn:E; [reflexivity|].
  set (ans := r :: rest).
  assert (Hnz : Nat.eqb (length ans) 0 = false) by reflexivity.
  rewrite Hnz.
  pose proof (ptr_loop_spec ans [] (S (length ans)) None) as H.
  cbn [map app] in H. change (length (@nil str)) with 0%nat in H.
  pose proof (filter_map_length proj_ptr ans) as Hlen.
  rewrite H by lia. clear H. cbn [bind].
  destruct (filter_map proj_ptr ans) as [|n names] eqn:En; [reflexivity|].
  cbn [Nat.add]. change (Nat.eqb (length (n :: names)) 0) with false. cbv iota.
  cbn [bind fst snd]. unfold compat at 1. change (ARES_SUCCESS =? ARES_EBADNAME) with false. cbv iota.
  unfold observe_hostres, observe_host, view_host. cbn [bind snd fst h_aliases h_addr_list].
  unfold view_slots at 1. rewrite until_null_fill_repeat by lia. cbn [bind].
  unfold last_or.
  destruct addr as [a|]; [destruct (addrlen >? 0)|]; reflexivity.
Qed.

(* ------------------------------------------------------------------------------------ *)
(* ares_parse_into_addrinfo                                                              *)
(* ------------------------------------------------------------------------------------ *)
Definition is_a_in (r : rr) : bool := is_in r && match rr_data r with RD_A _ => true | _ => false end.
Definition is_aaaa_in (r : rr) : bool := is_in r && match rr_data r with RD_AAAA _ => true | _ => false end.

(* the name the CNAME chain ends at: every IN CNAME replaces it by its target *)
Definition host_after (rrs : list rr) (h : str) : str :=
  fold_left (fun h r => match proj_cname r with Some c => snd (fst c) | None => h end) rrs h.

Definition pia_next (port : Z) (s : pia) (r : rr) : pia :=
  mkPia (match proj_cname r with Some c => snd (fst c) | None => p_host s end)
        (p_a s || is_a_in r) (p_aaaa s || is_aaaa_in r) (p_cname s || is_some (proj_cname r))
        (p_cnames s ++ match proj_cname r with Some c => [cn_of c] | None => [] end)
        (p_nodes s ++ match node_of port r with Some n => [n] | None => [] end).

Lemma pia_step port r rest s : pia_loop port (r :: rest) s = pia_loop port rest (pia_next port s r).
Proof.
  destruct s as [h a aa c cns nds]. cbn [pia_loop].
  unfold pia_next, proj_cname, node_of, is_a_in, is_aaaa_in. cbn [p_host p_a p_aaaa p_cname p_cnames p_nodes].
  destruct (is_in r); cbn [negb andb is_some].
  - destruct (rr_data r); cbn [is_some]; rewrite ?app_nil_r, ?orb_false_r, ?orb_true_r; reflexivity.
  - rewrite ?app_nil_r, ?orb_false_r. reflexivity.
Qed.

Lemma pia_loop_spec port rrs : forall s,
  pia_loop port rrs s =
  mkPia (host_after rrs (p_host s))
        (p_a s || existsb is_a_in rrs) (p_aaaa s || existsb is_aaaa_in rrs)
        (p_cname s || negb (is_nil (filter_map proj_cname rrs)))
        (p_cnames s ++ map cn_of (filter_map proj_cname rrs))
        (p_nodes s ++ filter_map (node_of port) rrs).
Proof.
  induction rrs as [|r rest IH]; intros s.
  - destruct s; simpl. rewrite ?orb_false_r, ?app_nil_r. reflexivity.
  - rewrite pia_step, IH. unfold pia_next. cbn [p_host p_a p_aaaa p_cname p_cnames p_nodes].
    cbn [host_after fold_left existsb filter_map].
    rewrite <- !orb_assoc, <- !app_assoc.
    destruct (proj_cname r) as [c|]; destruct (node_of port r) as [n|]; cbn [is_some map is_nil negb app orb];
      rewrite ?orb_true_r; reflexivity.
Qed.

Lemma existsb_nodes port rrs :
  existsb is_a_in rrs || existsb is_aaaa_in rrs = negb (is_nil (filter_map (node_of port) rrs)).
Proof.
  induction rrs as [|r rest IH]; [reflexivity|].
  cbn [existsb filter_map]. unfold is_a_in, is_aaaa_in, node_of in *.
  destruct (is_in r); cbn [andb orb]; [|exact IH].
  destruct (rr_data r); cbn [orb is_nil negb]; rewrite ?orb_true_r; try reflexivity; exact IH.
Qed.

Lemma existsb_orb {A} (f g : A -> bool) l : existsb (fun x => f x || g x) l = existsb f l || existsb g l.
Proof.
  induction l as [|x l IH]; [reflexivity|]. cbn [existsb]. rewrite IH.
  destruct (f x), (g x), (existsb f l), (existsb g l); reflexivity.
Qed.

Lemma is_any_addr_split r : is_any_addr r = is_a_in r || is_aaaa_in r.
Proof. unfold is_any_addr, is_a_in, is_aaaa_in. destruct (is_in r); [|reflexivity]. destruct (rr_data r); reflexivity. Qed.

Lemma pia_result rec q qs : r_questions rec = q :: qs ->
  parse_into_addrinfo rec false 0 ai_empty =
  if is_nil (filter_map (node_of 0) (r_answers rec)) && is_nil (filter_map proj_cname (r_answers rec))
  then (ARES_ENODATA, ai_empty)
  else (ARES_SUCCESS,
        mkAI (Some (host_after (r_answers rec) (q_name q)))
             (filter_map (node_of 0) (r_answers rec))
             (map cn_of (filter_map proj_cname (r_answers rec)))).
Proof.
  intros Hq. unfold parse_into_addrinfo. rewrite Hq.
  destruct (r_answers rec) as [|r rest] eqn:E; [reflexivity|].
  set (ans := r :: rest). change (Nat.eqb (length ans) 0) with false. cbv iota.
  rewrite pia_loop_spec. cbn [p_host p_a p_aaaa p_cname p_cnames p_nodes orb app andb].
  rewrite andb_false_r, orb_false_r.
  rewrite <- negb_orb. rewrite (existsb_nodes 0).
  cbn [ai_empty ai_name ai_nodes ai_cnames app].
  destruct (filter_map (node_of 0) ans) as [|n nodes]; destruct (filter_map proj_cname ans) as [|c cn];
    cbn [is_nil negb andb orb map]; reflexivity.
Qed.

(* ------------------------------------------------------------------------------------ *)
(* ares_addrinfo2hostent on a fresh hostent                                              *)
(* ------------------------------------------------------------------------------------ *)
Lemma ai_nalias_len cn : forall i, ai_nalias cn i = (i + length cn)%nat.
Proof. induction cn as [|c cn IH]; intros i; simpl; [lia | rewrite IH; lia]. Qed.

Lemma ai_naddr_len nodes family : family <> LEG_AF_UNSPEC ->
  forall i, ai_naddr nodes family i = (i + length (fam_nodes family nodes))%nat.
Proof.
  intros Hf. induction nodes as [|nd nodes IH]; intros i; simpl; [lia|].
  destruct (Z.eqb_spec family LEG_AF_UNSPEC) as [->|_]; [congruence|]. cbn [negb andb].
  rewrite (Z.eqb_sym family). destruct (n_family nd =? family); cbn [negb length]; rewrite IH; lia.
Qed.

Lemma alias_loop_spec cn : forall xs k, (length (filter_map c_alias cn) <= k)%nat ->
  alias_loop cn (map Some xs ++ repeat None k) (length xs) =
  Ok (map Some (xs ++ filter_map c_alias cn) ++ repeat None (k - length (filter_map c_alias cn))).
Proof.
  induction cn as [|c cn IH]; intros xs k Hk.
  - simpl. rewrite app_nil_r, Nat.sub_0_r. reflexivity.
  - cbn [alias_loop filter_map] in *. destruct (c_alias c) as [a|]; [|apply IH; exact Hk].
    cbn [length] in Hk. destruct k as [|k]; [lia|].
    rewrite set_slot_fill. cbn [bind].
    replace (S (length xs)) with (length (xs ++ [a])) by (rewrite app_length; simpl; lia).
    rewrite IH by lia. rewrite <- app_assoc. cbn [app length].
    replace (S k - S (length (filter_map c_alias cn)))%nat with (k - length (filter_map c_alias cn))%nat by lia.
    reflexivity.
Qed.

Lemma addr_loop_spec family nodes : forall xs k, (length (fam_nodes family nodes) <= k)%nat ->
  addr_loop family nodes (map Some xs ++ repeat None k) (length xs) =
  Ok (map Some (xs ++ map n_addr (fam_nodes family nodes)) ++ repeat None (k - length (fam_nodes family nodes))).
Proof.
  induction nodes as [|nd nodes IH]; intros xs k Hk.
  - simpl. rewrite app_nil_r, Nat.sub_0_r. reflexivity.
  - cbn [addr_loop fam_nodes filter] in *. destruct (n_family nd =? family); cbn [negb]; [|apply IH; exact Hk].
    cbn [length] in Hk. destruct k as [|k]; [lia|].
    rewrite set_slot_fill. cbn [bind].
    replace (S (length xs)) with (length (xs ++ [n_addr nd])) by (rewrite app_length; simpl; lia).
    fold (fam_nodes family nodes) in *.
    rewrite IH by lia. rewrite <- app_assoc. cbn [app length map].
    replace (S k - S (length (fam_nodes family nodes)))%nat with (k - length (fam_nodes family nodes))%nat by lia.
    reflexivity.
Qed.

Lemma a2h_fresh ai family : family = LEG_AF_INET \/ family = LEG_AF_INET6 ->
  exists st ho, addrinfo2hostent ai family None = Ok (st, ho) /\
                st = fst (a2h_view ai family) /\
                observe_host (match ho with Some h => HSome h | None => HNull end) = Ok (snd (a2h_view ai family)).
Proof.
  intros Hfam.
  assert (Hne : family <> LEG_AF_UNSPEC) by (destruct Hfam as [-> | ->]; discriminate).
  assert (Hok : negb (family =? LEG_AF_INET) && negb (family =? LEG_AF_INET6) = false)
    by (destruct Hfam as [-> | ->]; reflexivity).
  unfold addrinfo2hostent.
  destruct (Z.eqb_spec family LEG_AF_UNSPEC) as [E|_]; [congruence|].
  rewrite Hok. cbn [host_zero h_name h_aliases h_addr_list count_slots view_slots bind length].
  rewrite ai_nalias_len, (ai_naddr_len _ _ Hne). cbn [Nat.add realloc_zero_slots].
  rewrite !Nat.add_0_r.
  set (cn := ai_cnames ai). set (fn := fam_nodes family (ai_nodes ai)).
  pose proof (filter_map_length c_alias cn) as Hal.
  (* aliases *)
  assert (Ha : (if Nat.eqb (length cn) 0 then Ok (repeat None (length cn + 1))
                else alias_loop cn (repeat None (length cn + 1)) 0) =
               Ok (map Some (filter_map c_alias cn) ++ repeat None (length cn + 1 - length (filter_map c_alias cn)))).
  { destruct cn as [|c cn'] eqn:Ecn; [reflexivity|].
    change (Nat.eqb (length (c :: cn')) 0) with false. cbv iota.
    apply (alias_loop_spec (c :: cn') [] (length (c :: cn') + 1)). lia. }
  rewrite Ha. cbn [bind].
  assert (Hb : (if Nat.eqb (length fn) 0 then Ok (repeat None (length fn + 1))
                else addr_loop family (ai_nodes ai) (repeat None (length fn + 1)) 0) =
               Ok (map Some (map n_addr fn) ++ repeat None 1)).
  { destruct (length fn) as [|m] eqn:El.
    - destruct fn; [reflexivity | discriminate El].
    - change (Nat.eqb (S m) 0) with false. cbv iota.
      pose proof (addr_loop_spec family (ai_nodes ai) [] (S m + 1)) as H.
      fold fn in H. rewrite El in H. cbn [map app length] in H. rewrite H by lia.
      replace (S m + 1 - S m)%nat with 1%nat by lia. reflexivity. }
  rewrite Hb. cbn [bind].
  unfold a2h_view. fold cn fn.
  destruct fn as [|nd fn'] eqn:Efn; destruct cn as [|c cn'] eqn:Ecn; cbn [length Nat.eqb Nat.add is_nil andb].
  - eexists _, _. split; [reflexivity|]. split; reflexivity.
  - eexists _, _. split; [reflexivity|]. split; [reflexivity|].
    unfold observe_host, view_host. cbn [h_aliases h_addr_list h_name h_addrtype h_length view_slots].
    rewrite !until_null_fill_repeat by (cbn [length] in *; lia). reflexivity.
  - eexists _, _. split; [reflexivity|]. split; [reflexivity|].
    unfold observe_host, view_host. cbn [h_aliases h_addr_list h_name h_addrtype h_length view_slots].
    rewrite !until_null_fill_repeat by (cbn [length] in *; lia). reflexivity.
  - eexists _, _. split; [reflexivity|]. split; [reflexivity|].
    unfold observe_host, view_host. cbn [h_aliases h_addr_list h_name h_addrtype h_length view_slots].
    rewrite !until_null_fill_repeat by (cbn [length] in *; lia). reflexivity.
Qed.

(* ------------------------------------------------------------------------------------ *)
(* ares_addrinfo2addrttl                                                                 *)
(* ------------------------------------------------------------------------------------ *)
Lemma addrttl_loop_spec family req arr_len cttl nodes : 0 <= req <= arr_len ->
  forall written, Z.of_nat (length written) <= req ->
  addrttl_loop family req arr_len cttl nodes written =
  Ok (written ++ firstn (Z.to_nat req - length written) (map (ttl_entry cttl) (fam_nodes family nodes))).
Proof.
  intros Hreq. induction nodes as [|nd nodes IH]; intros written Hw.
  - simpl. rewrite firstn_nil, app_nil_r. reflexivity.
  - cbn [addrttl_loop fam_nodes filter]. destruct (n_family nd =? family); cbn [negb]; [|apply IH; exact Hw].
    fold (fam_nodes family nodes).
    destruct (Z.geb_spec (Z.of_nat (length written)) req) as [Hge|Hlt].
    + replace (Z.to_nat req - length written)%nat with 0%nat by lia. simpl. rewrite app_nil_r. reflexivity.
    + destruct (Z.geb_spec (Z.of_nat (length written)) arr_len) as [Hge2|_]; [lia|].
      rewrite IH by (rewrite app_length; simpl; lia).
      rewrite app_length. cbn [length map].
      replace (Z.to_nat req - length written)%nat with (S (Z.to_nat req - (length written + 1)))%nat by lia.
      cbn [firstn]. rewrite <- app_assoc. reflexivity.
Qed.

Lemma fold_min_shift a b l : fold_right Z.min (Z.min a b) l = Z.min a (fold_right Z.min b l).
Proof. induction l as [|x l IH]; simpl; [reflexivity|]. rewrite IH. lia. Qed.

Lemma cname_ttl_loop_spec cns : forall cur, cname_ttl_loop cns cur = fold_right Z.min cur (map c_ttl cns).
Proof.
  induction cns as [|c cns IH]; intros cur; simpl; [reflexivity|].
  rewrite IH. replace (if c_ttl c <? cur then c_ttl c else cur) with (Z.min (c_ttl c) cur)
    by (destruct (Z.ltb_spec (c_ttl c) cur); lia).
  apply fold_min_shift.
Qed.

Lemma cname_ttl_of_spec cn : cname_ttl_loop (map cn_of cn) LEG_INT_MAX = cname_min_ttl cn.
Proof.
  rewrite cname_ttl_loop_spec. unfold cname_min_ttl. rewrite map_map. reflexivity.
Qed.

Lemma ttl_entry_min cttl nd : ttl_entry cttl nd = (n_addr nd, Z.min (n_ttl nd) cttl).
Proof. unfold ttl_entry. rewrite Z.gtb_ltb. destruct (Z.ltb_spec cttl (n_ttl nd)); f_equal; lia. Qed.

Lemma fam_nodes_proj family port rrs : family = LEG_AF_INET \/ family = LEG_AF_INET6 ->
  map (fun nd => (n_addr nd, n_ttl nd)) (fam_nodes family (filter_map (node_of port) rrs)) =
  filter_map (proj_addr family) rrs.
Proof.
  intros Hfam. induction rrs as [|r rest IH]; [reflexivity|].
  cbn [filter_map]. unfold node_of, proj_addr at 1.
  destruct (is_in r); [|exact IH].
  destruct (rr_data r); try exact IH; cbn [fam_nodes filter n_family];
    destruct Hfam as [-> | ->];
    repeat match goal with
           | |- context [LEG_AF_INET =? LEG_AF_INET] => change (LEG_AF_INET =? LEG_AF_INET) with true
           | |- context [LEG_AF_INET6 =? LEG_AF_INET6] => change (LEG_AF_INET6 =? LEG_AF_INET6) with true
           | |- context [LEG_AF_INET =? LEG_AF_INET6] => change (LEG_AF_INET =? LEG_AF_INET6) with false
           | |- context [LEG_AF_INET6 =? LEG_AF_INET] => change (LEG_AF_INET6 =? LEG_AF_INET) with false
           end; cbv iota; cbn [map n_addr n_ttl]; try (f_equal; exact IH); exact IH.
Qed.

Lemma host_after_nocname rrs h : filter_map proj_cname rrs = [] -> host_after rrs h = h.
Proof.
  revert h. induction rrs as [|r rest IH]; intros h Hn; [reflexivity|].
  cbn [filter_map] in Hn. unfold host_after in *. cbn [fold_left].
  destruct (proj_cname r); [discriminate|]. apply IH. exact Hn.
Qed.

Lemma aliases_of_cn cn : filter_map c_alias (map cn_of cn) = map (fun c => fst (fst c)) cn.
Proof. induction cn as [|c cn IH]; [reflexivity|]. simpl. rewrite IH. reflexivity. Qed.

(* ------------------------------------------------------------------------------------ *)
(* ares_parse_a_reply / ares_parse_aaaa_reply                                            *)
(* ------------------------------------------------------------------------------------ *)
Definition tail_written (family : Z) (ai : addrinfo) (arr_given : bool) (nopt : option Z) : list (bin * Z) :=
  match nopt with
  | Some n => if arr_given
              then firstn (Z.to_nat n)
                     (map (ttl_entry (cname_ttl_loop (ai_cnames ai) LEG_INT_MAX)) (fam_nodes family (ai_nodes ai)))
              else []
  | None => []
  end.

Lemma addr_tail_spec family st1 ai want_host arr_given arr_len nopt :
  family = LEG_AF_INET \/ family = LEG_AF_INET6 ->
  st1 = ARES_SUCCESS \/ st1 = ARES_ENODATA ->
  (forall n, nopt = Some n -> 0 <= n <= arr_len /\ n <= LEG_INT_MAX) ->
  observe_addr (addr_reply_tail family st1 ai want_host arr_given arr_len
                  (match nopt with Some n => size_t_of_int n | None => 0 end)
                  (match nopt with Some _ => Some 0 | None => None end)) =
  Ok (mkAO (if want_host then fst (a2h_view ai family) else st1)
           (if want_host then snd (a2h_view ai family) else VUntouched)
           (match nopt with Some _ => Some (Z.of_nat (length (tail_written family ai arr_given nopt))) | None => None end)
           (tail_written family ai arr_given nopt)).
Proof.
  intros Hfam Hst1 Hn.
  assert (Hok : negb (family =? LEG_AF_INET) && negb (family =? LEG_AF_INET6) = false)
    by (destruct Hfam as [-> | ->]; reflexivity).
  unfold addr_reply_tail.
  (* status and hostent *)
  assert (Hh : exists st2 hout,
             (if want_host
              then do r <- addrinfo2hostent ai family None;
                   Ok (fst r, match snd r with Some h => HSome h | None => HNull end)
              else Ok (st1, HUntouched)) = Ok (st2, hout) /\
             st2 = (if want_host then fst (a2h_view ai family) else st1) /\
             observe_host hout = Ok (if want_host then snd (a2h_view ai family) else VUntouched)).
  { destruct want_host.
    - destruct (a2h_fresh ai family Hfam) as (st & ho & E & Es & Eo).
      rewrite E. cbn [bind fst snd]. eauto.
    - eauto. }
  destruct Hh as (st2 & hout & E & Est & Eobs). rewrite E. cbn [bind].
  assert (Hst2 : st2 = ARES_SUCCESS \/ st2 = ARES_ENODATA).
  { rewrite Est. destruct want_host; [|exact Hst1].
    unfold a2h_view. destruct (is_nil _ && is_nil _); [right | left]; reflexivity. }
  assert (Hgo : want_host && negb (st2 =? ARES_SUCCESS) && negb (st2 =? ARES_ENODATA) = false)
    by (destruct Hst2 as [-> | ->]; destruct want_host; reflexivity).
  rewrite Hgo.
  assert (Hc : compat st2 = st2) by (destruct Hst2 as [-> | ->]; reflexivity).
  rewrite Hc. rewrite <- Est.
  destruct nopt as [n|].
  - destruct (Hn n eq_refl) as [[Hn0 Hnl] Hni].
    assert (Hsz : size_t_of_int n = n).
    { unfold size_t_of_int. apply Z.mod_small. unfold LEG_INT_MAX in Hni. lia. }
    rewrite Hsz. unfold tail_written.
    destruct arr_given; cbn [andb].
    + destruct (Z.eqb_spec n 0) as [-> | Hnz]; cbn [negb].
      * unfold observe_addr. cbn [bind ar_host ar_status ar_naddr ar_written]. rewrite Eobs. reflexivity.
      * unfold addrinfo2addrttl. rewrite Hok. cbn [negb].
        destruct (Z.eqb_spec n 0) as [|_]; [contradiction|].
        rewrite (addrttl_loop_spec family n arr_len) by (cbn [length]; lia).
        cbn [bind app length snd]. rewrite Nat.sub_0_r.
        unfold observe_addr. cbn [bind ar_host ar_status ar_naddr ar_written]. rewrite Eobs. cbn [bind].
        set (w := firstn (Z.to_nat n) _).
        assert (Hwl : Z.of_nat (length w) <= n) by (unfold w; rewrite firstn_length; lia).
        unfold to_int. rewrite swrap_small by (unfold LEG_INT_MAX in Hni; lia). reflexivity.
    + unfold observe_addr. cbn [bind ar_host ar_status ar_naddr ar_written]. rewrite Eobs. reflexivity.
  - rewrite andb_false_r. unfold observe_addr. cbn [bind ar_host ar_status ar_naddr ar_written tail_written].
    rewrite Eobs. reflexivity.
Qed.

Lemma existsb_ext' {A} (f g : A -> bool) l : (forall x, f x = g x) -> existsb f l = existsb g l.
Proof. intros H. induction l as [|x l IH]; [reflexivity|]. cbn [existsb]. rewrite H, IH. reflexivity. Qed.

Lemma existsb_any_addr rrs : existsb is_any_addr rrs = negb (is_nil (filter_map (node_of 0) rrs)).
Proof.
  rewrite (existsb_ext' _ (fun r => is_a_in r || is_aaaa_in r)) by apply is_any_addr_split.
  rewrite existsb_orb. apply existsb_nodes.
Qed.

Lemma map_ttl_entry cttl nodes :
  map (ttl_entry cttl) nodes = map (fun e => (fst e, Z.min (snd e) cttl)) (map (fun nd => (n_addr nd, n_ttl nd)) nodes).
Proof. rewrite map_map. apply map_ext. intros nd. apply ttl_entry_min. Qed.

Theorem addr_reply_spec family rec q qs want_host arr_given arr_len nopt :
  family = LEG_AF_INET \/ family = LEG_AF_INET6 ->
  r_questions rec = q :: qs ->
  (forall n, nopt = Some n -> 0 <= n <= arr_len /\ n <= LEG_INT_MAX) ->
  observe_addr (parse_addr_reply family false (Parsed rec) want_host arr_given arr_len nopt) =
  Ok (spec_addr_reply family rec want_host arr_given nopt).
Proof.
  intros Hfam Hq Hn.
  unfold parse_addr_reply. cbv iota.
  rewrite (pia_result rec q qs Hq).
  pose proof (fam_nodes_proj family 0 (r_answers rec) Hfam) as Haddrs.
  pose proof (existsb_any_addr (r_answers rec)) as Hany.
  pose proof (host_after_nocname (r_answers rec) (q_name q)) as Hhost.
  unfold spec_addr_reply. rewrite Hany. rewrite <- Haddrs. clear Haddrs Hany.
  unfold qname. rewrite Hq.
  set (nodes := filter_map (node_of 0) (r_answers rec)) in *.
  set (cn := filter_map proj_cname (r_answers rec)) in *.
  destruct (is_nil nodes && is_nil cn) eqn:Hnil.
  - (* no data *)
    change (negb (ARES_ENODATA =? ARES_SUCCESS) && negb (ARES_ENODATA =? ARES_ENODATA)) with false. cbv iota.
    rewrite addr_tail_spec by (auto; right; reflexivity).
    destruct nodes as [|nd nodes']; [|discriminate Hnil].
    destruct cn as [|c cn']; [|discriminate Hnil].
    cbn [fam_nodes filter map is_nil negb orb].
    unfold a2h_view, tail_written. cbn [ai_empty ai_nodes ai_cnames fam_nodes filter is_nil andb fst snd map].
    destruct want_host, arr_given, nopt as [n|]; cbn [firstn length]; rewrite ?firstn_nil; reflexivity.
  - change (negb (ARES_SUCCESS =? ARES_SUCCESS) && negb (ARES_SUCCESS =? ARES_ENODATA)) with false. cbv iota.
    rewrite addr_tail_spec by (auto; left; reflexivity).
    unfold a2h_view, tail_written. cbn [ai_nodes ai_cnames ai_name].
    rewrite cname_ttl_of_spec, aliases_of_cn, map_ttl_entry.
    assert (Hst : (if negb (is_nil nodes) || match cn with [] => false | _ :: _ => true end
                   then ARES_SUCCESS else ARES_ENODATA) = ARES_SUCCESS).
    { destruct nodes; destruct cn; try reflexivity. discriminate Hnil. }
    rewrite Hst. clear Hst.
    set (fn := fam_nodes family nodes).
    assert (Hname : match map cn_of cn with c :: _ => c_name c | [] => Some (host_after (r_answers rec) (q_name q)) end =
                    match cn with (_, t, _) :: _ => Some t | [] => Some (q_name q) end).
    { destruct cn as [|[[o t] l] cn']; [rewrite Hhost; reflexivity | reflexivity]. }
    rewrite Hname. clear Hname.
    assert (Hhave : is_nil fn && is_nil (map cn_of cn) =
                    negb (match map (fun nd => (n_addr nd, n_ttl nd)) fn, cn with [], [] => false | _, _ => true end)).
    { destruct fn; destruct cn; reflexivity. }
    rewrite Hhave. clear Hhave.
    set (have := match map (fun nd => (n_addr nd, n_ttl nd)) fn, cn with [], [] => false | _, _ => true end).
    rewrite !map_map. cbn [fst].
    destruct want_host; destruct have; cbn [negb fst snd]; reflexivity.
Qed.

(* ------------------------------------------------------------------------------------ *)
(* corollaries: capacity, no-data, malformed                                             *)
(* ------------------------------------------------------------------------------------ *)
Lemma observe_addr_ok m o : observe_addr m = Ok o ->
  exists r, m = Ok r /\ ar_status r = ao_status o /\ ar_naddr r = ao_naddr o /\ ar_written r = ao_written o /\
            observe_host (ar_host r) = Ok (ao_host o).
Proof.
  unfold observe_addr. destruct m as [r| |]; cbn [bind]; try discriminate.
  destruct (observe_host (ar_host r)) as [v| |] eqn:E; cbn [bind]; try discriminate.
  intros H. injection H as <-. exists r. cbn. auto.
Qed.

(* the caller's array of [cap] elements is never overrun, exactly min(cap, available) elements
   are stored, they are the first ones in answer order, and *naddrttls reports their number *)
Theorem addr_capacity family rec q qs want_host cap :
  family = LEG_AF_INET \/ family = LEG_AF_INET6 ->
  r_questions rec = q :: qs ->
  0 <= cap <= LEG_INT_MAX ->
  exists r, parse_addr_reply family false (Parsed rec) want_host true cap (Some cap) = Ok r /\
            Z.of_nat (length (ar_written r)) = Z.min cap (Z.of_nat (length (filter_map (proj_addr family) (r_answers rec)))) /\
            map fst (ar_written r) = firstn (Z.to_nat cap) (map fst (filter_map (proj_addr family) (r_answers rec))) /\
            ar_naddr r = Some (Z.of_nat (length (ar_written r))).
Proof.
  intros Hfam Hq Hcap.
  pose proof (addr_reply_spec family rec q qs want_host true cap (Some cap) Hfam Hq) as H.
  destruct (observe_addr_ok _ _ (H ltac:(intros n [= <-]; lia))) as (r & Er & _ & Hn & Hw & _).
  exists r. split; [exact Er|].
  unfold spec_addr_reply in Hn, Hw. cbn [ao_naddr ao_written] in Hn, Hw.
  rewrite Hw. split; [|split].
  - rewrite firstn_length, map_length. lia.
  - rewrite <- firstn_map, map_map. cbn [fst]. reflexivity.
  - rewrite Hn. reflexivity.
Qed.

(* a rejected message: malformed status, nothing stored, nothing handed out *)
Lemma addr_reply_rejected family st want_host arr_given arr_len nopt :
  parse_addr_reply family false (ParseFail st) want_host arr_given arr_len nopt =
  Ok (mkAR (compat st) HUntouched (match nopt with Some _ => Some 0 | None => None end) []).
Proof. reflexivity. Qed.

Definition wf_parsed (p : parsed) : Prop :=
  match p with
  | ParseFail st => is_malformed_status st = true
  | Parsed rec => r_questions rec <> []
  end.

Lemma compat_malformed st : is_malformed_status st = true -> is_malformed_status (compat st) = true.
Proof. unfold compat. destruct (Z.eqb_spec st ARES_EBADNAME); [reflexivity | auto]. Qed.

Lemma malformed_success : is_malformed_status ARES_SUCCESS = false. Proof. reflexivity. Qed.
Lemma malformed_enodata : is_malformed_status ARES_ENODATA = false. Proof. reflexivity. Qed.

Lemma list_parser_malformed_iff {A} (loop : list rr -> list A -> list A) p : wf_parsed p ->
  (is_malformed_status (fst (list_parser loop false p)) = true <-> exists st, p = ParseFail st).
Proof.
  intros Hwf. destruct p as [st|rec]; cbn [list_parser fst].
  - split; [eauto | intros _; exact Hwf].
  - destruct (Nat.eqb (length (r_answers rec)) 0); cbn [fst];
      (split; [discriminate | intros [st E]; discriminate E]).
Qed.

Lemma ns_malformed_iff p : wf_parsed p ->
  exists st ho, parse_ns_reply false p = Ok (st, ho) /\
                (is_malformed_status st = true <-> exists s, p = ParseFail s).
Proof.
  intros Hwf. destruct p as [s|rec].
  - eexists _, _. split; [reflexivity|]. split; [eauto | intros _; apply compat_malformed; exact Hwf].
  - cbn [wf_parsed] in Hwf. destruct (r_questions rec) as [|q qs] eqn:Hq; [congruence|].
    pose proof (parse_ns_spec rec q qs Hq) as H. unfold observe_hostres in H.
    destruct (parse_ns_reply false (Parsed rec)) as [[st ho]| |]; cbn [bind] in H; try discriminate.
    exists st, ho. split; [reflexivity|].
    destruct (observe_host (snd (st, ho))); cbn [bind fst] in H; try discriminate.
    injection H as H. unfold spec_ns in H.
    destruct (filter_map proj_ns (r_answers rec)); injection H as -> _;
      (split; [discriminate | intros [s' E]; discriminate E]).
Qed.

Lemma ptr_malformed_iff p addr addrlen family : wf_parsed p ->
  exists st ho, parse_ptr_reply false p addr addrlen family = Ok (st, ho) /\
                (is_malformed_status st = true <-> exists s, p = ParseFail s).
Proof.
  intros Hwf. destruct p as [s|rec].
  - eexists _, _. split; [reflexivity|]. split; [eauto | intros _; apply compat_malformed; exact Hwf].
  - cbn [wf_parsed] in Hwf. destruct (r_questions rec) as [|q qs] eqn:Hq; [congruence|].
    pose proof (parse_ptr_spec rec q qs addr addrlen family Hq) as H. unfold observe_hostres in H.
    destruct (parse_ptr_reply false (Parsed rec) addr addrlen family) as [[st ho]| |]; cbn [bind] in H; try discriminate.
    exists st, ho. split; [reflexivity|].
    destruct (observe_host (snd (st, ho))); cbn [bind fst] in H; try discriminate.
    injection H as H. unfold spec_ptr in H.
    destruct (filter_map proj_ptr (r_answers rec)); injection H as -> _;
      (split; [discriminate | intros [s' E]; discriminate E]).
Qed.

Lemma addr_malformed_iff family p want_host arr_given arr_len nopt :
  family = LEG_AF_INET \/ family = LEG_AF_INET6 ->
  (forall n, nopt = Some n -> 0 <= n <= arr_len /\ n <= LEG_INT_MAX) ->
  wf_parsed p ->
  exists r, parse_addr_reply family false p want_host arr_given arr_len nopt = Ok r /\
            (is_malformed_status (ar_status r) = true <-> exists s, p = ParseFail s) /\
            ((exists s, p = ParseFail s) -> ar_written r = [] /\ ar_host r = HUntouched).
Proof.
  intros Hfam Hn Hwf. destruct p as [s|rec].
  - eexists. split; [apply addr_reply_rejected|]. cbn [ar_status ar_written ar_host].
    split; [split; [eauto | intros _; apply compat_malformed; exact Hwf] | auto].
  - cbn [wf_parsed] in Hwf. destruct (r_questions rec) as [|q qs] eqn:Hq; [congruence|].
    destruct (observe_addr_ok _ _ (addr_reply_spec family rec q qs want_host arr_given arr_len nopt Hfam Hq Hn))
      as (r & Er & Hs & _).
    exists r. split; [exact Er|]. split.
    + rewrite Hs. unfold spec_addr_reply. cbn [ao_status].
      split; [|intros [s' E]; discriminate E].
      destruct want_host;
        repeat match goal with |- context [if ?b then ARES_SUCCESS else ARES_ENODATA] => destruct b end; discriminate.
    + intros [s' E]; discriminate E.
Qed.

(* ares_parse_soa_reply: a rejected message gives a malformed status, but so does a
   well-formed message without SOA record (the "iff" of the property fails right to left) *)
Lemma soa_malformed_if p : wf_parsed p -> (exists st, p = ParseFail st) ->
  is_malformed_status (fst (parse_soa_reply false p)) = true.
Proof. intros Hwf [st ->]. cbn. apply compat_malformed. exact Hwf. Qed.

Lemma soa_malformed_iff_refuted :
  exists rec, wf_parsed (Parsed rec) /\ is_malformed_status (fst (parse_soa_reply false (Parsed rec))) = true.
Proof.
  exists (mkRec 0 [mkQ [119] ARES_REC_TYPE_SOA ARES_CLASS_IN]
                [mkRR [119] ARES_CLASS_IN 60 (RD_MX 10 [109])]).
  split; [discriminate | reflexivity].
Qed.

(* ------------------------------------------------------------------------------------ *)
(* the hypotheses are satisfiable by a non-trivial record: CNAME chain, two A records, one
   AAAA, a CHAOS-class A record that must be skipped; capacity 1                          *)
(* ------------------------------------------------------------------------------------ *)
Definition ex_rec : dnsrec :=
  mkRec 0 [mkQ [119] ARES_REC_TYPE_A ARES_CLASS_IN]
        [mkRR [119] ARES_CLASS_IN 300 (RD_CNAME [120]);
         mkRR [120] ARES_CLASS_IN 4294967295 (RD_A [10; 0; 0; 1]);
         mkRR [120] ARES_CLASS_CHAOS 5 (RD_A [10; 0; 0; 9]);
         mkRR [120] ARES_CLASS_IN 7 (RD_AAAA (repeat 0 15 ++ [1]));
         mkRR [120] ARES_CLASS_IN 50 (RD_A [10; 0; 0; 2])].

Example ex_addr_reply :
  observe_addr (parse_addr_reply LEG_AF_INET false (Parsed ex_rec) true true 1 (Some 1)) =
  Ok (mkAO ARES_SUCCESS
           (VHost (mkHV (Some [120]) [[119]] LEG_AF_INET 4 [[10; 0; 0; 1]; [10; 0; 0; 2]]))
           (Some 1) [([10; 0; 0; 1], 0)]).
Proof. vm_compute. reflexivity. Qed.

Theorem addr_nodata family rec q qs arr_given arr_len nopt :
  family = LEG_AF_INET \/ family = LEG_AF_INET6 ->
  r_questions rec = q :: qs ->
  (forall n, nopt = Some n -> 0 <= n <= arr_len /\ n <= LEG_INT_MAX) ->
  filter_map (proj_addr family) (r_answers rec) = [] -> filter_map proj_cname (r_answers rec) = [] ->
  exists r, parse_addr_reply family false (Parsed rec) true arr_given arr_len nopt = Ok r /\
            ar_status r = ARES_ENODATA /\ ar_host r = HNull /\ ar_written r = [].
Proof.
  intros Hfam Hq Hn Ha Hc.
  destruct (observe_addr_ok _ _ (addr_reply_spec family rec q qs true arr_given arr_len nopt Hfam Hq Hn))
    as (r & Er & Hs & _ & Hw & Hh).
  exists r. split; [exact Er|].
  unfold spec_addr_reply in Hs, Hw, Hh. rewrite Ha, Hc in *. cbn [ao_status ao_written ao_host map] in *.
  split; [exact Hs|]. split.
  - destruct (ar_host r) as [| |h]; cbn [observe_host] in Hh; try discriminate; [reflexivity|].
    destruct (view_host h); discriminate.
  - rewrite Hw. destruct nopt; [destruct arr_given; [apply firstn_nil | reflexivity] | reflexivity].
Qed.

Theorem hostent_nodata rec q qs addr addrlen family : r_questions rec = q :: qs ->
  (filter_map proj_ns (r_answers rec) = [] ->
     observe_hostres (parse_ns_reply false (Parsed rec)) = Ok (ARES_ENODATA, VNull)) /\
  (filter_map proj_ptr (r_answers rec) = [] ->
     observe_hostres (parse_ptr_reply false (Parsed rec) addr addrlen family) = Ok (ARES_ENODATA, VNull)).
Proof.
  intros Hq. split; intros He.
  - rewrite (parse_ns_spec rec q qs Hq). unfold spec_ns. rewrite He. reflexivity.
  - rewrite (parse_ptr_spec rec q qs addr addrlen family Hq). unfold spec_ptr. rewrite He. reflexivity.
Qed.

Theorem lists_nodata rec :
  (r_answers rec = [] ->
     parse_mx_reply false (Parsed rec) = (ARES_ENODATA, []) /\ parse_srv_reply false (Parsed rec) = (ARES_ENODATA, []) /\
     parse_naptr_reply false (Parsed rec) = (ARES_ENODATA, []) /\ parse_caa_reply false (Parsed rec) = (ARES_ENODATA, []) /\
     parse_uri_reply false (Parsed rec) = (ARES_ENODATA, []) /\ parse_txt_reply false (Parsed rec) = (ARES_ENODATA, []) /\
     parse_txt_reply_ext false (Parsed rec) = (ARES_ENODATA, [])) /\
  (r_answers rec <> [] -> filter_map proj_mx (r_answers rec) = [] -> parse_mx_reply false (Parsed rec) = (ARES_SUCCESS, [])).
Proof.
  split.
  - intros He. rewrite parse_mx_spec, parse_srv_spec, parse_naptr_spec, parse_caa_spec, parse_uri_spec,
      parse_txt_spec, parse_txt_ext_spec.
    unfold spec_mx, spec_srv, spec_naptr, spec_caa, spec_uri, spec_txt, nodata_list_status. rewrite He.
    repeat split; reflexivity.
  - intros Hne He. rewrite parse_mx_spec. unfold spec_mx, nodata_list_status. rewrite He.
    destruct (r_answers rec); [congruence | reflexivity].
Qed.

Theorem lists_malformed_iff p : wf_parsed p ->
  (is_malformed_status (fst (parse_mx_reply false p)) = true <-> exists st, p = ParseFail st) /\
  (is_malformed_status (fst (parse_srv_reply false p)) = true <-> exists st, p = ParseFail st) /\
  (is_malformed_status (fst (parse_naptr_reply false p)) = true <-> exists st, p = ParseFail st) /\
  (is_malformed_status (fst (parse_caa_reply false p)) = true <-> exists st, p = ParseFail st) /\
  (is_malformed_status (fst (parse_uri_reply false p)) = true <-> exists st, p = ParseFail st) /\
  (is_malformed_status (fst (parse_txt_reply false p)) = true <-> exists st, p = ParseFail st) /\
  (is_malformed_status (fst (parse_txt_reply_ext false p)) = true <-> exists st, p = ParseFail st).
Proof. intros Hwf. repeat split; apply (list_parser_malformed_iff _ p Hwf). Qed.

Theorem negative_length p family wh ag al n addr addrlen fam2 :
  (exists r, parse_addr_reply family true p wh ag al n = Ok r /\ ar_status r = ARES_EBADRESP /\ ar_written r = []) /\
  parse_ns_reply true p = Ok (ARES_EBADRESP, HNull) /\
  parse_ptr_reply true p addr addrlen fam2 = Ok (ARES_EBADRESP, HUntouched) /\
  parse_mx_reply true p = (ARES_EBADRESP, []) /\ parse_srv_reply true p = (ARES_EBADRESP, []) /\
  parse_naptr_reply true p = (ARES_EBADRESP, []) /\ parse_caa_reply true p = (ARES_EBADRESP, []) /\
  parse_uri_reply true p = (ARES_EBADRESP, []) /\ parse_txt_reply true p = (ARES_EBADRESP, []) /\
  parse_txt_reply_ext true p = (ARES_EBADRESP, []) /\ parse_soa_reply true p = (ARES_EBADRESP, None).
Proof. split; [eexists; split; [reflexivity | split; reflexivity] | repeat split]. Qed.

(* TTL values (with fixes/C18-ttl-int-clamp.patch): the legacy structs carry the TTL as int; what
   is handed out is never negative, and it is the record's TTL (capped by the CNAME TTLs of the
   answer) whenever that fits; a TTL with the top bit set counts as 0 (RFC 2181 s.8) *)
Lemma in_firstn {A} (x : A) n : forall l, In x (firstn n l) -> In x l.
Proof. induction n as [|n IH]; intros [|y l] H; cbn in H; try contradiction. destruct H as [->|H]; [left; reflexivity | right; apply IH; exact H]. Qed.

Lemma ttl_to_int_range z : 0 <= z -> 0 <= ttl_to_int z <= LEG_INT_MAX.
Proof. intros Hz. unfold ttl_to_int, LEG_INT_MAX. destruct (Z.gtb_spec z 2147483647); lia. Qed.

Lemma ttl_to_int_id z : 0 <= z <= LEG_INT_MAX -> ttl_to_int z = z.
Proof. unfold ttl_to_int, LEG_INT_MAX. intros Hz. destruct (Z.gtb_spec z 2147483647); lia. Qed.

Definition ttls_nonneg (rrs : list rr) : Prop := Forall (fun r => 0 <= rr_ttl r) rrs.

Lemma proj_cname_ttl r c : proj_cname r = Some c -> snd c = ttl_to_int (rr_ttl r).
Proof. unfold proj_cname. destruct (is_in r); [|discriminate]. destruct (rr_data r); try discriminate. intros [= <-]. reflexivity. Qed.

Lemma proj_addr_ttl family r e : proj_addr family r = Some e -> snd e = ttl_to_int (rr_ttl r).
Proof.
  unfold proj_addr. destruct (is_in r); [|discriminate].
  destruct (rr_data r); try discriminate; destruct (family =? _); try discriminate; intros [= <-]; reflexivity.
Qed.

Lemma cname_min_range rrs : ttls_nonneg rrs -> 0 <= cname_min_ttl (filter_map proj_cname rrs) <= LEG_INT_MAX.
Proof.
  unfold cname_min_ttl. induction 1 as [|r rrs Hr _ IH]; cbn [filter_map]; [cbn; unfold LEG_INT_MAX; lia|].
  destruct (proj_cname r) as [c|] eqn:P; [|exact IH].
  cbn [map fold_right]. rewrite (proj_cname_ttl r c P).
  pose proof (ttl_to_int_range (rr_ttl r) Hr). lia.
Qed.

Theorem addr_ttl_range family rec q qs want_host cap r :
  family = LEG_AF_INET \/ family = LEG_AF_INET6 ->
  r_questions rec = q :: qs -> 0 <= cap <= LEG_INT_MAX -> ttls_nonneg (r_answers rec) ->
  parse_addr_reply family false (Parsed rec) want_host true cap (Some cap) = Ok r ->
  Forall (fun e => 0 <= snd e <= LEG_INT_MAX) (ar_written r).
Proof.
  intros Hfam Hq Hcap Hnn Hr.
  pose proof (addr_reply_spec family rec q qs want_host true cap (Some cap) Hfam Hq ltac:(intros n [= <-]; lia)) as H.
  destruct (observe_addr_ok _ _ H) as (r' & Er & _ & _ & Hw & _). rewrite Hr in Er. injection Er as <-.
  rewrite Hw. unfold spec_addr_reply. cbn [ao_written].
  pose proof (cname_min_range (r_answers rec) Hnn) as Hc.
  apply Forall_forall. intros e He. apply (in_firstn e) in He. apply in_map_iff in He.
  destruct He as ([a t] & <- & Hin). cbn [fst snd].
  assert (Ht : 0 <= t <= LEG_INT_MAX).
  { clear - Hin Hnn. induction Hnn as [|r0 rrs Hr0 _ IH]; cbn [filter_map] in Hin; [destruct Hin|].
    destruct (proj_addr family r0) as [e|] eqn:P; [|exact (IH Hin)].
    destruct Hin as [-> | Hin]; [|exact (IH Hin)].
    pose proof (proj_addr_ttl family r0 _ P) as E. cbn [snd] in E. rewrite E. apply ttl_to_int_range. exact Hr0. }
  lia.
Qed.
