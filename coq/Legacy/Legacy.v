(* Code-shaped models of the legacy reply parsers (src/lib/legacy/ares_parse_*_reply.c) and of
   the addrinfo conversions they go through (ares_parse_into_addrinfo.c,
   ares_addrinfo2hostent.c).  Each function follows the C text: same checks in the same
   order, loops as recursive functions over the answer list carrying the C loop's local
   variables as accumulators, `continue` as the recursive call with unchanged accumulators,
   `break` as returning the accumulators, array stores through [set_slot] (out of bounds =
   UB), NULL-terminated arrays read through [until_null].

   Not modelled: allocation failure (every ares_malloc succeeds; ARES_ENOMEM paths are the
   subject of C14) and the wire parser (input: [parsed]).  The specification these models
   are proved against is in Legacy_spec.v. *)
From CAres.Legacy Require Export Rec.
From CAres.Gen Require Import Consts.
Local Open Scope Z_scope.

(* status compatibility mapping found at the end of several parsers *)
Definition compat (s : Z) : Z := if s =? ARES_EBADNAME then ARES_EBADRESP else s.

(* ------------------------------------------------------------------------------------ *)
(* struct ares_addrinfo                                                                  *)
(* ------------------------------------------------------------------------------------ *)
Record ai_node := mkNode { n_family : Z; n_addr : bin; n_port : Z; n_ttl : Z (* int *) }.
Record ai_cname := mkCname { c_ttl : Z (* int *); c_alias : option str; c_name : option str }.
Record addrinfo := mkAI { ai_name : option str; ai_nodes : list ai_node; ai_cnames : list ai_cname }.
Definition ai_empty : addrinfo := mkAI None [] [].

(* locals of ares_parse_into_addrinfo *)
Record pia := mkPia {
  p_host : str; p_a : bool; p_aaaa : bool; p_cname : bool;
  p_cnames : list ai_cname; p_nodes : list ai_node }.

(* the for loop over the answer section *)
Fixpoint pia_loop (port : Z) (rrs : list rr) (s : pia) : pia :=
  match rrs with
  | [] => s
  | r :: rest =>
    if negb (is_in r) then pia_loop port rest s
    else match rr_data r with
    | RD_CNAME target =>
      (* ares_append_addrinfo_cname walks to the tail *)
      pia_loop port rest
        (mkPia target (p_a s) (p_aaaa s) true
               (p_cnames s ++ [mkCname (ttl_to_int (rr_ttl r)) (Some (rr_name r)) (Some target)])
               (p_nodes s))
    | RD_A a =>
      pia_loop port rest
        (mkPia (p_host s) true (p_aaaa s) (p_cname s) (p_cnames s)
               (p_nodes s ++ [mkNode LEG_AF_INET a port (ttl_to_int (rr_ttl r))]))
    | RD_AAAA a =>
      pia_loop port rest
        (mkPia (p_host s) (p_a s) true (p_cname s) (p_cnames s)
               (p_nodes s ++ [mkNode LEG_AF_INET6 a port (ttl_to_int (rr_ttl r))]))
    | _ => pia_loop port rest s
    end
  end.

Definition parse_into_addrinfo (rec : dnsrec) (cname_only_is_enodata : bool) (port : Z)
           (ai : addrinfo) : Z * addrinfo :=
  match r_questions rec with
  | [] => (compat ARES_EFORMERR, ai)                       (* ares_dns_record_query_get fails *)
  | q :: _ =>
    if Nat.eqb (length (r_answers rec)) 0 then (compat ARES_ENODATA, ai)
    else
      let s := pia_loop port (r_answers rec) (mkPia (q_name q) false false false [] []) in
      if negb (p_a s) && negb (p_aaaa s) &&
         (negb (p_cname s) || (p_cname s && cname_only_is_enodata))
      then (compat ARES_ENODATA, ai)
      else
        let name := match ai_name ai with
                    | None => Some (p_host s)
                    | Some n => if strcaseeq n (p_host s) then Some n else Some (p_host s)
                    end in
        let nodes := if p_a s || p_aaaa s then ai_nodes ai ++ p_nodes s else ai_nodes ai in
        let cnames := if p_cname s then ai_cnames ai ++ p_cnames s else ai_cnames ai in
        (compat ARES_SUCCESS, mkAI name nodes cnames)
  end.

(* ------------------------------------------------------------------------------------ *)
(* struct hostent with explicit pointer arrays                                           *)
(* ------------------------------------------------------------------------------------ *)
Record hostent := mkHost {
  h_name      : option str;
  h_aliases   : option (list (option str));   (* None: NULL pointer *)
  h_addrtype  : Z;
  h_length    : Z;
  h_addr_list : option (list (option bin)) }.
Definition host_zero : hostent := mkHost None None 0 0 None.

(* what a caller sees when walking the NULL-terminated arrays *)
Record host_view := mkHV {
  hv_name : option str; hv_aliases : list str; hv_addrtype : Z; hv_length : Z; hv_addrs : list bin }.
Definition view_slots {A} (o : option (list (option A))) : outcome (list A) :=
  match o with None => Ok [] | Some l => until_null l end.
Definition view_host (h : hostent) : outcome host_view :=
  do al <- view_slots (h_aliases h);
  do ad <- view_slots (h_addr_list h);
  Ok (mkHV (h_name h) al (h_addrtype h) (h_length h) ad).

(* hostent_nalias / hostent_naddr *)
Definition count_slots {A} (o : option (list (option A))) : outcome nat :=
  do l <- view_slots o; Ok (length l).

(* ares_realloc_zero(ptr, old_n pointers, new_n pointers): old prefix kept, rest zeroed *)
Definition realloc_zero_slots {A} (o : option (list (option A))) (old_n new_n : nat) : list (option A) :=
  match o with
  | None => repeat None new_n
  | Some l => firstn old_n l ++ repeat None (new_n - old_n)
  end.

(* ai_nalias *)
Fixpoint ai_nalias (cn : list ai_cname) (i : nat) : nat :=
  match cn with [] => i | _ :: rest => ai_nalias rest (S i) end.

(* ai_naddr *)
Fixpoint ai_naddr (nodes : list ai_node) (af : Z) (i : nat) : nat :=
  match nodes with
  | [] => i
  | nd :: rest =>
    if negb (af =? LEG_AF_UNSPEC) && negb (af =? n_family nd) then ai_naddr rest af i
    else ai_naddr rest af (S i)
  end.

Fixpoint alias_loop (cn : list ai_cname) (al : list (option str)) (i : nat) : outcome (list (option str)) :=
  match cn with
  | [] => Ok al
  | c :: rest =>
    match c_alias c with
    | None => alias_loop rest al i
    | Some a => do al' <- set_slot al i a; alias_loop rest al' (S i)
    end
  end.

Fixpoint addr_loop (family : Z) (nodes : list ai_node) (al : list (option bin)) (i : nat) : outcome (list (option bin)) :=
  match nodes with
  | [] => Ok al
  | nd :: rest =>
    if negb (n_family nd =? family) then addr_loop family rest al i
    else do al' <- set_slot al i (n_addr nd); addr_loop family rest al' (S i)
  end.

Definition first_family (ai : addrinfo) (dflt : Z) : Z :=
  match ai_nodes ai with nd :: _ => n_family nd | [] => dflt end.

Definition addrinfo2hostent (ai : addrinfo) (family : Z) (host : option hostent) : outcome (Z * option hostent) :=
  let family :=
      if family =? LEG_AF_UNSPEC then
        match host with
        | Some h => if negb (h_addrtype h =? LEG_AF_UNSPEC) then h_addrtype h else first_family ai family
        | None => first_family ai family
        end
      else family in
  if negb (family =? LEG_AF_INET) && negb (family =? LEG_AF_INET6) then Ok (ARES_EBADQUERY, host)
  else
    let h0 := match host with Some h => h | None => host_zero end in
    let hlen := if family =? LEG_AF_INET then LEG_IN_ADDR_SIZE else LEG_IN6_ADDR_SIZE in
    let name := match h_name h0 with
                | Some n => Some n
                | None => match ai_cnames ai with c :: _ => c_name c | [] => ai_name ai end
                end in
    let naliases := ai_nalias (ai_cnames ai) 0 in
    do ealiases <- count_slots (h_aliases h0);
    let aliases := realloc_zero_slots (h_aliases h0) ealiases (naliases + ealiases + 1) in
    do aliases <- (if Nat.eqb naliases 0 then Ok aliases else alias_loop (ai_cnames ai) aliases ealiases);
    let naddrs := ai_naddr (ai_nodes ai) family 0 in
    do eaddrs <- count_slots (h_addr_list h0);
    let addrs := realloc_zero_slots (h_addr_list h0) eaddrs (naddrs + eaddrs + 1) in
    do addrs <- (if Nat.eqb naddrs 0 then Ok addrs else addr_loop family (ai_nodes ai) addrs eaddrs);
    if Nat.eqb (naddrs + eaddrs) 0 && Nat.eqb (naliases + ealiases) 0
    then Ok (ARES_ENODATA, None)                         (* ares_free_hostent; *host = NULL *)
    else Ok (ARES_SUCCESS, Some (mkHost name (Some aliases) family hlen (Some addrs))).

(* ------------------------------------------------------------------------------------ *)
(* ares_addrinfo2addrttl                                                                 *)
(* ------------------------------------------------------------------------------------ *)
Fixpoint cname_ttl_loop (cn : list ai_cname) (cur : Z) : Z :=
  match cn with
  | [] => cur
  | c :: rest => cname_ttl_loop rest (if c_ttl c <? cur then c_ttl c else cur)
  end.

(* [written] is the prefix of the caller's array filled so far (the value of naddrttls[0] is its length);
   [arr_len] is the true number of elements of the caller's array *)
Fixpoint addrttl_loop (family req arr_len cname_ttl : Z) (nodes : list ai_node)
         (written : list (bin * Z)) : outcome (list (bin * Z)) :=
  match nodes with
  | [] => Ok written
  | nd :: rest =>
    if negb (n_family nd =? family) then addrttl_loop family req arr_len cname_ttl rest written
    else if Z.of_nat (length written) >=? req then Ok written                    (* break *)
    else if Z.of_nat (length written) >=? arr_len then UB OutOfBounds
    else addrttl_loop family req arr_len cname_ttl rest
           (written ++ [(n_addr nd, if n_ttl nd >? cname_ttl then cname_ttl else n_ttl nd)])
  end.

Definition addrinfo2addrttl (ai : addrinfo) (family req : Z) (arr_given : bool) (arr_len : Z)
           (naddr_given : bool) : outcome (Z * list (bin * Z)) :=
  if negb (family =? LEG_AF_INET) && negb (family =? LEG_AF_INET6) then Ok (ARES_EBADQUERY, [])
  else if negb naddr_given then Ok (ARES_EBADQUERY, [])
  else if negb arr_given then Ok (ARES_EBADQUERY, [])
  else if req =? 0 then Ok (ARES_EBADQUERY, [])
  else
    let cname_ttl := cname_ttl_loop (ai_cnames ai) LEG_INT_MAX in
    do w <- addrttl_loop family req arr_len cname_ttl (ai_nodes ai) [];
    Ok (ARES_SUCCESS, w).

(* ------------------------------------------------------------------------------------ *)
(* ares_parse_a_reply / ares_parse_aaaa_reply (family = AF_INET / AF_INET6)              *)
(* ------------------------------------------------------------------------------------ *)
Inductive host_out := HUntouched | HNull | HSome (h : hostent).

Record addr_result := mkAR {
  ar_status  : Z;
  ar_host    : host_out;            (* *host as the caller finds it *)
  ar_naddr   : option Z;            (* *naddrttls afterwards (None: pointer was NULL) *)
  ar_written : list (bin * Z) }.    (* elements stored into the caller's array, from index 0 *)

Definition size_t_of_int (n : Z) : Z := n mod 2 ^ 64.

(* the part after ares_parse_into_addrinfo succeeded or reported no data *)
Definition addr_reply_tail (family st1 : Z) (ai : addrinfo) (want_host arr_given : bool)
           (arr_len req : Z) (naddr0 : option Z) : outcome addr_result :=
  do hres <- (if want_host
              then do r <- addrinfo2hostent ai family None;
                   Ok (fst r, match snd r with Some h => HSome h | None => HNull end)
              else Ok (st1, HUntouched));
  let '(st2, hout) := hres in
  if want_host && negb (st2 =? ARES_SUCCESS) && negb (st2 =? ARES_ENODATA)
  then Ok (mkAR (compat st2) hout naddr0 [])
  else if arr_given && negb (req =? 0) then
    do r <- addrinfo2addrttl ai family req true arr_len true;
    Ok (mkAR (compat st2) hout (Some (to_int (Z.of_nat (length (snd r))))) (snd r))
  else Ok (mkAR (compat st2) hout naddr0 []).

Definition parse_addr_reply (family : Z) (alen_neg : bool) (p : parsed) (want_host : bool)
           (arr_given : bool) (arr_len : Z) (naddrttls : option Z) : outcome addr_result :=
  if alen_neg then Ok (mkAR ARES_EBADRESP HUntouched naddrttls [])
  else
    let req := match naddrttls with Some n => size_t_of_int n | None => 0 end in
    let naddr0 := match naddrttls with Some _ => Some 0 | None => None end in
    match p with
    | ParseFail st => Ok (mkAR (compat st) HUntouched naddr0 [])
    | Parsed rec =>
      let '(st1, ai) := parse_into_addrinfo rec false 0 ai_empty in
      if negb (st1 =? ARES_SUCCESS) && negb (st1 =? ARES_ENODATA)
      then Ok (mkAR (compat st1) HUntouched naddr0 [])
      else addr_reply_tail family st1 ai want_host arr_given arr_len req naddr0
    end.

(* ------------------------------------------------------------------------------------ *)
(* ares_parse_ns_reply                                                                   *)
(* ------------------------------------------------------------------------------------ *)
Fixpoint ns_loop (rrs : list rr) (aliases : list (option str)) (nscount : nat)
  : outcome (list (option str) * nat) :=
  match rrs with
  | [] => Ok (aliases, nscount)
  | r :: rest =>
    if negb (is_in r) then ns_loop rest aliases nscount
    else match rr_data r with
    | RD_NS n => do a <- set_slot aliases nscount n; ns_loop rest a (S nscount)
    | _ => ns_loop rest aliases nscount
    end
  end.

Definition parse_ns_reply (alen_neg : bool) (p : parsed) : outcome (Z * host_out) :=
  if alen_neg then Ok (ARES_EBADRESP, HNull)
  else match p with
  | ParseFail st => Ok (compat st, HNull)
  | Parsed rec =>
    let ancount := length (r_answers rec) in
    if Nat.eqb ancount 0 then Ok (compat ARES_ENODATA, HNull)
    else match r_questions rec with
    | [] => Ok (compat ARES_EFORMERR, HNull)
    | q :: _ =>
      do res <- ns_loop (r_answers rec) (repeat None (S ancount)) 0;
      let '(aliases, nscount) := res in
      if Nat.eqb nscount 0 then Ok (compat ARES_ENODATA, HNull)
      else Ok (ARES_SUCCESS,
               HSome (mkHost (Some (q_name q)) (Some aliases) LEG_AF_INET LEG_IN_ADDR_SIZE (Some [None])))
    end
  end.

(* ------------------------------------------------------------------------------------ *)
(* ares_parse_ptr_reply / ares_parse_ptr_reply_dnsrec                                    *)
(* ------------------------------------------------------------------------------------ *)
(* ptrname (question name, replaced by every CNAME target) is written but never read by the
   C code; it is therefore not part of the state here. *)
Fixpoint ptr_loop (rrs : list rr) (aliases : list (option str)) (ptrcount : nat) (hostname : option str)
  : outcome (list (option str) * nat * option str) :=
  match rrs with
  | [] => Ok (aliases, ptrcount, hostname)
  | r :: rest =>
    if negb (is_in r) then ptr_loop rest aliases ptrcount hostname
    else match rr_data r with
    | RD_PTR n => do a <- set_slot aliases ptrcount n; ptr_loop rest a (S ptrcount) (Some n)
    | _ => ptr_loop rest aliases ptrcount hostname
    end
  end.

Definition parse_ptr_reply_dnsrec (rec : dnsrec) (addr : option bin) (addrlen family : Z)
  : outcome (Z * host_out) :=
  match r_questions rec with
  | [] => Ok (compat ARES_EFORMERR, HNull)
  | _ :: _ =>
    let ancount := length (r_answers rec) in
    if Nat.eqb ancount 0 then Ok (compat ARES_ENODATA, HNull)
    else
      let addrs := match addr with
                   | Some a => if addrlen >? 0 then [Some (firstn (Z.to_nat addrlen) a); None] else [None; None]
                   | None => [None; None]
                   end in
      do res <- ptr_loop (r_answers rec) (repeat None (S ancount)) 0 None;
      let '(aliases, ptrcount, hostname) := res in
      if Nat.eqb ptrcount 0 then Ok (compat ARES_ENODATA, HNull)
      else Ok (ARES_SUCCESS, HSome (mkHost hostname (Some aliases) family addrlen (Some addrs)))
  end.

Definition parse_ptr_reply (alen_neg : bool) (p : parsed) (addr : option bin) (addrlen family : Z)
  : outcome (Z * host_out) :=
  if alen_neg then Ok (ARES_EBADRESP, HUntouched)
  else match p with
  | ParseFail st => Ok (compat st, HUntouched)
  | Parsed rec => do r <- parse_ptr_reply_dnsrec rec addr addrlen family; Ok (compat (fst r), snd r)
  end.

(* ------------------------------------------------------------------------------------ *)
(* linked-list parsers: mx, srv, naptr, caa, uri, txt                                    *)
(* The list is built by appending at the tail (x_last->next = x_curr); [] is the NULL     *)
(* pointer.  *out = NULL is stored before anything else.                                  *)
(* ------------------------------------------------------------------------------------ *)
Record mx_reply := mkMx { mx_priority : Z; mx_host : str }.
Record srv_reply := mkSrv { srv_priority : Z; srv_weight : Z; srv_port : Z; srv_host : str }.
Record naptr_reply := mkNaptr { na_order : Z; na_preference : Z; na_flags : str; na_service : str;
                                na_regexp : str; na_replacement : str }.
Record caa_reply := mkCaa { caa_critical : Z; caa_plength : Z; caa_property : str;
                            caa_length : Z; caa_value : bin }.
Record uri_reply := mkUri { uri_priority : Z; uri_weight : Z; uri_ttl : Z (* int *); uri_uri : str }.
Record soa_reply := mkSoa { soa_nsname : str; soa_hostmaster : str; soa_serial : Z; soa_refresh : Z;
                            soa_retry : Z; soa_expire : Z; soa_minttl : Z }.
Record txt_ent := mkTxt { txt_record_start : bool; txt_length : Z; txt_txt : bin }.

Fixpoint mx_loop (rrs : list rr) (acc : list mx_reply) : list mx_reply :=
  match rrs with
  | [] => acc
  | r :: rest =>
    if negb (is_in r) then mx_loop rest acc
    else match rr_data r with
    | RD_MX pref exch => mx_loop rest (acc ++ [mkMx pref exch])
    | _ => mx_loop rest acc
    end
  end.

Fixpoint srv_loop (rrs : list rr) (acc : list srv_reply) : list srv_reply :=
  match rrs with
  | [] => acc
  | r :: rest =>
    if negb (is_in r) then srv_loop rest acc
    else match rr_data r with
    | RD_SRV prio weight port target => srv_loop rest (acc ++ [mkSrv prio weight port target])
    | _ => srv_loop rest acc
    end
  end.

Fixpoint naptr_loop (rrs : list rr) (acc : list naptr_reply) : list naptr_reply :=
  match rrs with
  | [] => acc
  | r :: rest =>
    if negb (is_in r) then naptr_loop rest acc
    else match rr_data r with
    | RD_NAPTR order pref flags services regexp repl =>
      naptr_loop rest (acc ++ [mkNaptr order pref flags services regexp repl])
    | _ => naptr_loop rest acc
    end
  end.

Fixpoint caa_loop (rrs : list rr) (acc : list caa_reply) : list caa_reply :=
  match rrs with
  | [] => acc
  | r :: rest =>
    if negb (is_in_or_chaos r) then caa_loop rest acc
    else match rr_data r with
    | RD_CAA critical tag value =>
      caa_loop rest (acc ++ [mkCaa critical (Z.of_nat (length tag)) tag (Z.of_nat (length value)) value])
    | _ => caa_loop rest acc
    end
  end.

Fixpoint uri_loop (rrs : list rr) (acc : list uri_reply) : list uri_reply :=
  match rrs with
  | [] => acc
  | r :: rest =>
    if negb (is_in r) then uri_loop rest acc
    else match rr_data r with
    | RD_URI prio weight target => uri_loop rest (acc ++ [mkUri prio weight (ttl_to_int (rr_ttl r)) target])
    | _ => uri_loop rest acc
    end
  end.

(* inner loop over the strings of one TXT record: j is the C loop counter *)
Fixpoint txt_inner (ex : bool) (chunks : list bin) (j : nat) (acc : list txt_ent) : list txt_ent :=
  match chunks with
  | [] => acc
  | c :: cs => txt_inner ex cs (S j) (acc ++ [mkTxt (ex && Nat.eqb j 0) (Z.of_nat (length c)) c])
  end.

Fixpoint txt_loop (ex : bool) (rrs : list rr) (acc : list txt_ent) : list txt_ent :=
  match rrs with
  | [] => acc
  | r :: rest =>
    if negb (is_in_or_chaos r) then txt_loop ex rest acc
    else match rr_data r with
    | RD_TXT chunks => txt_loop ex rest (txt_inner ex chunks 0 acc)
    | _ => txt_loop ex rest acc
    end
  end.

(* common frame: *out = NULL; alen < 0; parse; ancount == 0 -> ENODATA; loop; done *)
Definition list_parser {A} (loop : list rr -> list A -> list A) (alen_neg : bool) (p : parsed)
  : Z * list A :=
  if alen_neg then (ARES_EBADRESP, [])
  else match p with
  | ParseFail st => (st, [])
  | Parsed rec =>
    if Nat.eqb (length (r_answers rec)) 0 then (ARES_ENODATA, [])
    else (ARES_SUCCESS, loop (r_answers rec) [])
  end.

Definition parse_mx_reply := list_parser mx_loop.
Definition parse_srv_reply := list_parser srv_loop.
Definition parse_naptr_reply := list_parser naptr_loop.
Definition parse_caa_reply := list_parser caa_loop.
Definition parse_uri_reply := list_parser uri_loop.
Definition parse_txt_reply := list_parser (txt_loop false).
Definition parse_txt_reply_ext := list_parser (txt_loop true).

(* ------------------------------------------------------------------------------------ *)
(* ares_parse_soa_reply: first IN SOA, then break                                        *)
(* ------------------------------------------------------------------------------------ *)
Fixpoint soa_loop (rrs : list rr) : option soa_reply :=
  match rrs with
  | [] => None
  | r :: rest =>
    if negb (is_in r) then soa_loop rest
    else match rr_data r with
    | RD_SOA mname rname serial refresh retry expire minimum =>
      Some (mkSoa mname rname serial refresh retry expire minimum)      (* break *)
    | _ => soa_loop rest
    end
  end.

Definition parse_soa_reply (alen_neg : bool) (p : parsed) : Z * option soa_reply :=
  if alen_neg then (ARES_EBADRESP, None)
  else match p with
  | ParseFail st => (compat st, None)
  | Parsed rec =>
    if Nat.eqb (length (r_answers rec)) 0 then (compat ARES_EBADRESP, None)
    else match soa_loop (r_answers rec) with
    | None => (compat ARES_EBADRESP, None)
    | Some s => (ARES_SUCCESS, Some s)
    end
  end.
