(* The parsed DNS record in abstract form: exactly what the PUBLIC getters of the record API
   (ares_dns_record_query_get, ares_dns_record_rr_cnt/rr_get, ares_dns_rr_get_name/class/
   ttl/addr/addr6/str/u8/u16/u32/bin/abin) report about the answer section.  The wire parser
   itself (ares_dns_parse) is NOT modelled here: whether it accepted the message, and what it
   produced, is an input of the legacy-parser models.  The implementation driver
   (harness/legacy_drv.c) dumps this structure through the public getters.

   Strings are the bytes of the NUL-terminated C string (without the NUL); binary fields keep
   their length. *)
From CAres.Base Require Export Outcome CInt.
From CAres.Gen Require Import Consts.
Local Open Scope Z_scope.

Definition str := list Z.
Definition bin := list Z.

Inductive rdata :=
| RD_A (a : bin)                                   (* ARES_RR_A_ADDR, 4 bytes *)
| RD_AAAA (a : bin)                                (* ARES_RR_AAAA_ADDR, 16 bytes *)
| RD_CNAME (n : str)
| RD_NS (n : str)
| RD_PTR (n : str)
| RD_MX (pref : Z) (exch : str)
| RD_SRV (prio weight port : Z) (target : str)
| RD_NAPTR (order pref : Z) (flags services regexp repl : str)
| RD_CAA (critical : Z) (tag : str) (value : bin)
| RD_URI (prio weight : Z) (target : str)
| RD_SOA (mname rname : str) (serial refresh retry expire minimum : Z)
| RD_TXT (chunks : list bin)
| RD_OTHER (t : Z).                                (* any other ares_dns_rec_type_t *)

Record rr := mkRR {
  rr_name  : str;
  rr_class : Z;      (* ares_dns_rr_get_class *)
  rr_ttl   : Z;      (* ares_dns_rr_get_ttl, unsigned int *)
  rr_data  : rdata }.

(* ares_dns_rr_get_type *)
Definition rr_type (r : rr) : Z :=
  match rr_data r with
  | RD_A _ => ARES_REC_TYPE_A | RD_AAAA _ => ARES_REC_TYPE_AAAA | RD_CNAME _ => ARES_REC_TYPE_CNAME
  | RD_NS _ => ARES_REC_TYPE_NS | RD_PTR _ => ARES_REC_TYPE_PTR | RD_MX _ _ => ARES_REC_TYPE_MX
  | RD_SRV _ _ _ _ => ARES_REC_TYPE_SRV | RD_NAPTR _ _ _ _ _ _ => ARES_REC_TYPE_NAPTR
  | RD_CAA _ _ _ => ARES_REC_TYPE_CAA | RD_URI _ _ _ => ARES_REC_TYPE_URI
  | RD_SOA _ _ _ _ _ _ _ => ARES_REC_TYPE_SOA | RD_TXT _ => ARES_REC_TYPE_TXT
  | RD_OTHER t => t
  end.

Record question := mkQ { q_name : str; q_type : Z; q_class : Z }.

Record dnsrec := mkRec {
  r_rcode     : Z;
  r_questions : list question;
  r_answers   : list rr }.

(* outcome of ares_dns_parse(): rejected with a status, or a record *)
Inductive parsed :=
| ParseFail (st : Z)
| Parsed (r : dnsrec).

Definition is_in (r : rr) : bool := rr_class r =? ARES_CLASS_IN.
Definition is_in_or_chaos (r : rr) : bool := (rr_class r =? ARES_CLASS_IN) || (rr_class r =? ARES_CLASS_CHAOS).

(* (int) conversion of a 32-bit unsigned value *)
Definition to_int (z : Z) : Z := swrap 32 z.

(* ARES_TTL_TO_INT (fixes/C18-ttl-int-clamp.patch): the legacy structures carry a TTL as int;
   RFC 2181 section 8: a TTL with the most significant bit set counts as zero *)
Definition ttl_to_int (z : Z) : Z := if z >? 2147483647 then 0 else z.

(* ares_strcaseeq on C strings *)
Definition lower (c : Z) : Z := if (65 <=? c) && (c <=? 90) then c + 32 else c.
Fixpoint strcaseeq (a b : str) : bool :=
  match a, b with
  | [], [] => true
  | x :: a', y :: b' => (lower x =? lower y) && strcaseeq a' b'
  | _, _ => false
  end.

(* an array of pointers with explicit bounds: writing outside is C undefined behaviour, and so
   is scanning for the terminating NULL past the end *)
Definition set_slot {A} (l : list (option A)) (i : nat) (v : A) : outcome (list (option A)) :=
  if Nat.ltb i (length l) then Ok (firstn i l ++ Some v :: skipn (S i) l) else UB OutOfBounds.

Fixpoint until_null {A} (l : list (option A)) : outcome (list A) :=
  match l with
  | [] => UB OutOfBounds
  | None :: _ => Ok []
  | Some x :: t => do r <- until_null t; Ok (x :: r)
  end.
