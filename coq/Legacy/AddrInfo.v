(* Function-level models for property C13 (address lookups return exactly the addresses the
   answers contain), as far as they need no channel:
     - ares_parse_into_addrinfo, ares_addrinfo2hostent, ares_addrinfo2addrttl,
       ares_parse_ptr_reply_dnsrec : in Legacy.v (shared with C18)
     - ares_sortaddrinfo : array build + relinking of the node list after qsort (this file)
     - sort_addresses / sort6_addresses of ares_gethostbyname.c : the sortlist insertion sort
     - ares_addrinfo_localhost (non-Windows: ares_system_loopback_addrs = ARES_ENOTFOUND)
     - ares_dns_addr_to_ptr with ares_buf_append_num_dec / ares_count_digits / ares_pow
   External behaviour is a parameter: qsort (returns some permutation), get_address_index
   (sortlist matching), find_src_addr (no influence on the content). *)
From CAres.Legacy Require Export Legacy.
From CAres.Gen Require Import Consts.
Local Open Scope Z_scope.

(* ------------------------------------------------------------------------------------ *)
(* ares_sortaddrinfo: nodes are identified by their position in the incoming list; the    *)
(* heap holds every node's ai_next field.                                                 *)
(* ------------------------------------------------------------------------------------ *)
Definition set_next (heap : list (option nat)) (node : nat) (v : option nat) : outcome (list (option nat)) :=
  if Nat.ltb node (length heap) then Ok (firstn node heap ++ v :: skipn (S node) heap) else UB OutOfBounds.

(* for (i = 0; i < nelem - 1; ++i) elems[i].ai->ai_next = elems[i + 1].ai;
   elems[nelem - 1].ai->ai_next = NULL;                                    (nelem >= 1) *)
Fixpoint relink_loop (elems : list nat) (heap : list (option nat)) : outcome (list (option nat)) :=
  match elems with
  | [] => Ok heap
  | a :: rest =>
    match rest with
    | [] => set_next heap a None
    | b :: _ => do h <- set_next heap a (Some b); relink_loop rest h
    end
  end.

(* the list a caller walks from list_sentinel->ai_next; a cycle exhausts the fuel *)
Fixpoint walk (fuel : nat) (cur : option nat) (heap : list (option nat)) : outcome (list nat) :=
  match cur with
  | None => Ok []
  | Some n =>
    match fuel with
    | O => Err OutOfFuel
    | S f =>
      match nth_error heap n with
      | None => UB OutOfBounds
      | Some nx => do r <- walk f nx heap; Ok (n :: r)
      end
    end
  end.

(* incoming list 0 -> 1 -> ... -> n-1 -> NULL *)
Definition chain_heap (n : nat) : list (option nat) :=
  map (fun i => if Nat.eqb (S i) n then None else Some (S i)) (seq 0 n).

Section SortAddrinfo.
  (* qsort over the element array, seen as the order of original positions it leaves *)
  Variable qsort_order : nat -> list nat.

  Definition sortaddrinfo (n : nat) : outcome (Z * option nat * list (option nat)) :=
    if Nat.eqb n 0 then Ok (ARES_ENODATA, None, chain_heap n)
    else
      let elems := qsort_order n in
      do h <- relink_loop elems (chain_heap n);
      Ok (ARES_SUCCESS, hd_error elems, h).
End SortAddrinfo.

(* ------------------------------------------------------------------------------------ *)
(* sort_addresses / sort6_addresses (ares_gethostbyname.c)                                *)
(* ------------------------------------------------------------------------------------ *)
Definition set_at {A} (l : list A) (i : nat) (v : A) : outcome (list A) :=
  if Nat.ltb i (length l) then Ok (firstn i l ++ v :: skipn (S i) l) else UB OutOfBounds.

Section SortList.
  Variable idx : bin -> nat.          (* get_address_index(addr, sortlist, nsort) *)

  (* for (i2 = i1 - 1; i2 >= 0; i2--): [c] is i2 + 1; returns the array and i2 + 1 *)
  Fixpoint sort_inner (arr : list bin) (ind1 : nat) (c : nat) : outcome (list bin * nat) :=
    match c with
    | O => Ok (arr, 0%nat)
    | S j =>
      match nth_error arr j with
      | None => UB OutOfBounds
      | Some a2 =>
        if Nat.leb (idx a2) ind1 then Ok (arr, S j)                        (* break *)
        else do arr' <- set_at arr (S j) a2; sort_inner arr' ind1 j
      end
    end.

  (* for (i1 = 0; host->h_addr_list[i1]; i1++): the NULL terminator sits at index length *)
  Fixpoint sort_outer (fuel : nat) (arr : list bin) (i1 : nat) : outcome (list bin) :=
    match nth_error arr i1 with
    | None => Ok arr
    | Some a1 =>
      match fuel with
      | O => Err OutOfFuel
      | S f =>
        do r <- sort_inner arr (idx a1) i1;
        do arr'' <- set_at (fst r) (snd r) a1;
        sort_outer f arr'' (S i1)
      end
    end.

  Definition sort_addresses (arr : list bin) : outcome (list bin) := sort_outer (length arr) arr 0.
End SortList.

(* ------------------------------------------------------------------------------------ *)
(* ares_addrinfo_localhost (ares_system_loopback_addrs answers ARES_ENOTFOUND here)       *)
(* ------------------------------------------------------------------------------------ *)
Definition loopback6 : bin := repeat 0 15 ++ [1].
Definition loopback4 : bin := [127; 0; 0; 1].

Fixpoint ai_has_family (af : Z) (nodes : list ai_node) : bool :=
  match nodes with
  | [] => false
  | nd :: rest => if n_family nd =? af then true else ai_has_family af rest
  end.

Definition default_loopback_addrs (af port : Z) (nodes : list ai_node) : list ai_node :=
  let nodes :=
      if ((af =? LEG_AF_UNSPEC) || (af =? LEG_AF_INET6)) && negb (ai_has_family LEG_AF_INET6 nodes)
      then nodes ++ [mkNode LEG_AF_INET6 loopback6 port (ttl_to_int 0)] else nodes in
  if ((af =? LEG_AF_UNSPEC) || (af =? LEG_AF_INET)) && negb (ai_has_family LEG_AF_INET nodes)
  then nodes ++ [mkNode LEG_AF_INET loopback4 port (ttl_to_int 0)] else nodes.

Definition addrinfo_localhost (name : str) (port : Z) (hint_family : Z) (ai : addrinfo) : Z * addrinfo :=
  if negb ((hint_family =? LEG_AF_INET) || (hint_family =? LEG_AF_INET6) || (hint_family =? LEG_AF_UNSPEC))
  then (ARES_EBADFAMILY, ai)
  else (ARES_SUCCESS, mkAI (Some name) (default_loopback_addrs hint_family port (ai_nodes ai)) (ai_cnames ai)).

(* ------------------------------------------------------------------------------------ *)
(* ares_dns_addr_to_ptr                                                                  *)
(* ------------------------------------------------------------------------------------ *)
Definition size_t_wrap (z : Z) : Z := z mod 2 ^ 64.

(* ares_count_digits *)
Fixpoint count_digits_loop (fuel : nat) (n digits : Z) : outcome Z :=
  if n >? 0 then
    match fuel with
    | O => Err OutOfFuel
    | S f => count_digits_loop f (n / 10) (digits + 1)
    end
  else Ok digits.
Definition count_digits (n : Z) : outcome Z :=
  do d <- count_digits_loop 32 n 0; Ok (if d =? 0 then 1 else d).

(* ares_pow: square and multiply on size_t *)
Fixpoint pow_loop (fuel : nat) (x y res : Z) : outcome Z :=
  if y >? 0 then
    match fuel with
    | O => Err OutOfFuel
    | S f => pow_loop f (size_t_wrap (x * x)) (y / 2) (if Z.odd y then size_t_wrap (res * x) else res)
    end
  else Ok res.
Definition ares_pow (x y : Z) : outcome Z := pow_loop 64 x y 1.

(* ares_buf_append_num_dec(buf, num, len): the bytes appended *)
Fixpoint num_dec_loop (fuel : nat) (num modulus : Z) (i : Z) (acc : str) : outcome str :=
  if i >? 0 then
    match fuel with
    | O => Err OutOfFuel
    | S f =>
      let digit := num mod modulus in
      let modulus := modulus / 10 in
      if modulus =? 0 then Err ARES_EFORMERR
      else num_dec_loop f num modulus (i - 1) (acc ++ [48 + Z.land (digit / modulus) 255])
    end
  else Ok acc.
Definition append_num_dec (num len : Z) : outcome str :=
  do len <- (if len =? 0 then count_digits num else Ok len);
  do modulus <- ares_pow 10 len;
  if modulus =? 0 then UB DivZero else num_dec_loop 32 num modulus len [].

Definition hexbyte (c : Z) : Z := if c <? 10 then 48 + c else 97 + (c - 10).   (* "0123456789abcdef"[c] *)

(* for (i = ptr_len; i > 0; i--) over ptr[i - 1]: [rev_bytes] is the address read backwards *)
Fixpoint ptr_loop4 (rev_bytes : bin) (acc : str) : outcome str :=
  match rev_bytes with
  | [] => Ok acc
  | b :: rest => do d <- append_num_dec b 0; ptr_loop4 rest (acc ++ d ++ [46])
  end.
Fixpoint ptr_loop6 (rev_bytes : bin) (acc : str) : str :=
  match rev_bytes with
  | [] => acc
  | b :: rest => ptr_loop6 rest (acc ++ [hexbyte (Z.land b 15); 46; hexbyte (Z.land (Z.shiftr b 4) 15); 46])
  end.

Definition in_addr_arpa : str := [105; 110; 45; 97; 100; 100; 114; 46; 97; 114; 112; 97].
Definition ip6_arpa : str := [105; 112; 54; 46; 97; 114; 112; 97].

(* None: NULL result *)
Definition addr_to_ptr (family : Z) (addr : bin) : outcome (option str) :=
  if negb (family =? LEG_AF_INET) && negb (family =? LEG_AF_INET6) then Ok None
  else if family =? LEG_AF_INET then
    (if negb (Nat.eqb (length addr) 4) then UB OutOfBounds
     else do s <- ptr_loop4 (rev addr) []; Ok (Some (s ++ in_addr_arpa)))
  else
    (if negb (Nat.eqb (length addr) 16) then UB OutOfBounds
     else Ok (Some (ptr_loop6 (rev addr) [] ++ ip6_arpa))).

(* ---------------- specification: RFC 1035 3.5 / RFC 3596 2.5 reverse names ---------------- *)
Definition dec_digits (b : Z) : str :=
  if b <? 10 then [48 + b]
  else if b <? 100 then [48 + b / 10; 48 + b mod 10]
  else [48 + b / 100; 48 + (b / 10) mod 10; 48 + b mod 10].

Definition rfc_ptr4 (addr : bin) : str :=
  flat_map (fun b => dec_digits b ++ [46]) (rev addr) ++ in_addr_arpa.
Definition rfc_ptr6 (addr : bin) : str :=
  flat_map (fun b => [hexbyte (b mod 16); 46; hexbyte (b / 16); 46]) (rev addr) ++ ip6_arpa.

(* decoders (used to show that distinct addresses give distinct names) *)
Definition is_digit (c : Z) : bool := (48 <=? c) && (c <=? 57).
Fixpoint read_dec (fuel : nat) (s : str) (acc : Z) : option (Z * str) :=
  match s with
  | c :: rest =>
    if c =? 46 then Some (acc, rest)
    else if is_digit c then match fuel with O => None | S f => read_dec f rest (acc * 10 + (c - 48)) end
    else None
  | [] => None
  end.
Fixpoint unptr4 (n : nat) (s : str) : option bin :=
  match n with
  | O => Some []
  | S m => match read_dec 3 s 0 with
           | Some (b, rest) => match unptr4 m rest with Some l => Some (l ++ [b]) | None => None end
           | None => None
           end
  end.
Definition unhex (c : Z) : option Z :=
  if is_digit c then Some (c - 48) else if (97 <=? c) && (c <=? 102) then Some (c - 87) else None.
Fixpoint unptr6 (n : nat) (s : str) : option bin :=
  match n with
  | O => Some []
  | S m => match s with
           | lo :: d1 :: hi :: d2 :: rest =>
             if (d1 =? 46) && (d2 =? 46) then
               match unhex lo, unhex hi, unptr6 m rest with
               | Some l, Some h, Some r => Some (r ++ [h * 16 + l])
               | _, _, _ => None
               end
             else None
           | _ => None
           end
  end.

(* ---------------- specification: loopback rule ---------------- *)
(* the nodes already present are kept; ::1 and/or 127.0.0.1 are added for every requested
   family that has no node yet, IPv6 first, with the caller's port and TTL 0 *)
Definition spec_loopback (family port : Z) (nodes : list ai_node) : list ai_node :=
  let want6 := (family =? LEG_AF_UNSPEC) || (family =? LEG_AF_INET6) in
  let want4 := (family =? LEG_AF_UNSPEC) || (family =? LEG_AF_INET) in
  nodes
  ++ (if want6 && negb (existsb (fun nd => n_family nd =? LEG_AF_INET6) nodes) then [mkNode LEG_AF_INET6 loopback6 port 0] else [])
  ++ (if want4 && negb (existsb (fun nd => n_family nd =? LEG_AF_INET) nodes) then [mkNode LEG_AF_INET loopback4 port 0] else []).
